// C15 driver: emplace_back from every source form x source/stored type pair x length, one case per transition of
// spec/CntgsSources.tla.  Records what was stored, what happened to the source and how often each source item was
// copied / moved from; spec/TraceSrc.tla judges.  No expectations here.
#pragma once
#include <cntgs/contiguous.hpp>

#include <sys/mman.h>
#include <sys/wait.h>
#include <unistd.h>

#include <array>
#include <cstdint>
#include <cstdio>
#include <cstring>
#include <fstream>
#include <iterator>
#include <list>
#include <sstream>
#include <string>
#include <vector>
#if defined(__cpp_lib_ranges) && defined(__cpp_lib_span)
#include <ranges>
#include <span>
#define VSRC_STD_VIEWS 1
#endif

namespace vsrc
{
inline int item_value(int i) { return i == 0 ? 0 : i + 1; }  // 0, 2, 3

// ---- counting value type: every copy / move of a source item is attributed to the item it came from --------------
struct Counters
{
    int copies[8];
    int moves[8];
};
inline Counters& counters()
{
    static Counters c;
    return c;
}
struct Cnt
{
    int v;
    int id;  // index of the SOURCE item this value descends from, -1 for none
    Cnt() : v(0), id(-1) {}
    Cnt(int x, int i) : v(x), id(i) {}
    Cnt(const Cnt& o) : v(o.v), id(o.id)
    {
        if (id >= 0 && id < 8) ++counters().copies[id];
    }
    Cnt(Cnt&& o) noexcept : v(o.v), id(o.id)
    {
        if (id >= 0 && id < 8) ++counters().moves[id];
        o.v = 0;
    }
    Cnt& operator=(const Cnt&) = default;
    Cnt& operator=(Cnt&&) = default;
};

// ---- type pairs ------------------------------------------------------------------------------------------------
struct A4
{
    int v;
};
struct B4
{
    int v;
    B4() = default;
    /*implicit*/ B4(const A4& a) : v(a.v * 3) {}
};
struct D4
{
    int v;
};
struct C4
{
    int v;
    operator D4() const { return D4{v + 1}; }
};
enum E32 : std::uint32_t
{
    E_ZERO = 0
};

template <class S>
S make_src(int x, int id)
{
    if constexpr (std::is_same_v<S, Cnt>)
        return Cnt(x, id);
    else if constexpr (std::is_same_v<S, A4>)
        return A4{x};
    else if constexpr (std::is_same_v<S, C4>)
        return C4{x};
    else if constexpr (std::is_same_v<S, std::string>)
        return "a string that is too long for the small buffer #" + std::to_string(x);
    else
        return static_cast<S>(x);
}
template <class T>
int decode(const T& t)
{
    if constexpr (std::is_same_v<T, bool>)
    {
        unsigned char raw;
        std::memcpy(&raw, &t, 1);
        return raw;  // the object representation: a bool that holds 2 is visible as 2
    }
    else if constexpr (std::is_same_v<T, Cnt> || std::is_same_v<T, A4> || std::is_same_v<T, B4> || std::is_same_v<T, D4> ||
                       std::is_same_v<T, C4>)
        return t.v;
    else if constexpr (std::is_same_v<T, std::string>)
    {
        auto p = t.rfind('#');
        return p == std::string::npos ? 0 : std::atoi(t.c_str() + p + 1);
    }
    else
        return static_cast<int>(t);
}

// ---- single-pass generated range with counting iterator ------------------------------------------------------------
struct GenStats
{
    int incs;
    int derefs;
};
inline GenStats& gen_stats()
{
    static GenStats g;
    return g;
}
template <class S>
struct GenRange
{
    int n;
    struct iterator
    {
        using iterator_category = std::input_iterator_tag;
        using value_type = S;
        using difference_type = std::ptrdiff_t;
        using pointer = const S*;
        using reference = S;
        int i;
        S operator*() const
        {
            ++gen_stats().derefs;
            return make_src<S>(item_value(i), i);
        }
        iterator& operator++()
        {
            ++gen_stats().incs;
            ++i;
            return *this;
        }
        iterator operator++(int)
        {
            auto c = *this;
            ++*this;
            return c;
        }
        bool operator==(const iterator& o) const { return i == o.i; }
        bool operator!=(const iterator& o) const { return i != o.i; }
    };
    iterator begin() const { return {0}; }
    iterator end() const { return {n}; }
};

enum Form
{
    VEC_L = 1,
    VEC_R,
    ARR_L,
    CARR_L,
    LIST_L,
    LIST_R,
    GEN_R,
    PTR,
    VEC_IT,
    LIST_IT,
    MOVE_IT,
    REV_IT,
    VIEW_L,  // lvalue non-owning view over a contiguous container (std::span in C++20 builds)
    VIEW_R,  // the same as an rvalue: an rvalue RANGE, its items are moved from
    SUB_R    // rvalue non-owning view over a node-based container (std::ranges::subrange in C++20 builds)
};

// non-owning views for the C++17 build (the C++20 build uses the standard ones, which are borrowed ranges)
template <class S>
struct ContigView
{
    S* b;
    S* e;
    S* begin() const { return b; }
    S* end() const { return e; }
    S* data() const { return b; }
    std::size_t size() const { return static_cast<std::size_t>(e - b); }
};
template <class It>
struct IterView
{
    It b, e;
    It begin() const { return b; }
    It end() const { return e; }
};
template <class S>
auto make_contig_view(std::vector<S>& v)
{
#ifdef VSRC_STD_VIEWS
    return std::span<S>{v};
#else
    return ContigView<S>{v.data(), v.data() + v.size()};
#endif
}
template <class S>
auto make_list_view(std::list<S>& l)
{
#ifdef VSRC_STD_VIEWS
    return std::ranges::subrange{l.begin(), l.end()};
#else
    return IterView<typename std::list<S>::iterator>{l.begin(), l.end()};
#endif
}

template <class T>
using FixedVec = cntgs::ContiguousVector<cntgs::FixedSize<T>>;
template <class T>
using VaryingVec = cntgs::ContiguousVector<std::uint32_t, cntgs::VaryingSize<T>>;

struct Result
{
    std::vector<int> stored;
    std::vector<int> after;
    bool has_after = true;
    long stored_count = -1;
};

template <bool Varying, class T, class Src>
void do_emplace(Result& r, std::size_t n, Src&& src)
{
    if constexpr (Varying)
    {
        VaryingVec<T> v{1, n * sizeof(T)};
        v.emplace_back(static_cast<std::uint32_t>(n), std::forward<Src>(src));
        auto&& [cnt, span] = v[0];
        r.stored_count = static_cast<long>(span.size());
        for (auto& x : span) r.stored.push_back(decode<T>(x));
        (void)cnt;
    }
    else
    {
        FixedVec<T> v{1, {n}};
        v.emplace_back(std::forward<Src>(src));
        auto&& [span] = v[0];
        r.stored_count = static_cast<long>(span.size());
        for (auto& x : span) r.stored.push_back(decode<T>(x));
    }
}

template <class S, class C>
void read_after(Result& r, const C& c)
{
    for (const auto& x : c) r.after.push_back(decode<S>(x));
}

template <bool Varying, class S, class T, std::size_t N>
bool run_form(int form, Result& r)
{
    std::vector<S> vec;
    std::list<S> lst;
    for (std::size_t i = 0; i < N; ++i)
    {
        vec.push_back(make_src<S>(item_value(static_cast<int>(i)), static_cast<int>(i)));
        lst.push_back(make_src<S>(item_value(static_cast<int>(i)), static_cast<int>(i)));
    }
    std::memset(&counters(), 0, sizeof(Counters));  // building the sources is not part of the case
    gen_stats() = GenStats{0, 0};
    switch (form)
    {
        case VEC_L:
            do_emplace<Varying, T>(r, N, vec);
            read_after<S>(r, vec);
            return true;
        case VEC_R:
            do_emplace<Varying, T>(r, N, std::move(vec));
            read_after<S>(r, vec);
            return true;
        case ARR_L:
        {
            std::array<S, N> arr{};
            for (std::size_t i = 0; i < N; ++i) arr[i] = make_src<S>(item_value(static_cast<int>(i)), static_cast<int>(i));
            std::memset(&counters(), 0, sizeof(Counters));
            do_emplace<Varying, T>(r, N, arr);
            read_after<S>(r, arr);
            return true;
        }
        case CARR_L:
            if constexpr (N > 0)
            {
                S carr[N];
                for (std::size_t i = 0; i < N; ++i) carr[i] = make_src<S>(item_value(static_cast<int>(i)), static_cast<int>(i));
                std::memset(&counters(), 0, sizeof(Counters));
                do_emplace<Varying, T>(r, N, carr);
                for (std::size_t i = 0; i < N; ++i) r.after.push_back(decode<S>(carr[i]));
                return true;
            }
            return false;
        case LIST_L:
            do_emplace<Varying, T>(r, N, lst);
            read_after<S>(r, lst);
            return true;
        case LIST_R:
            do_emplace<Varying, T>(r, N, std::move(lst));
            read_after<S>(r, lst);
            return true;
        case GEN_R:
            do_emplace<Varying, T>(r, N, GenRange<S>{static_cast<int>(N)});
            r.has_after = false;
            return true;
        case VIEW_L:
        {
            auto view = make_contig_view(vec);
            do_emplace<Varying, T>(r, N, view);
            read_after<S>(r, vec);
            return true;
        }
        case VIEW_R:
            do_emplace<Varying, T>(r, N, make_contig_view(vec));
            read_after<S>(r, vec);
            return true;
        case SUB_R:
            do_emplace<Varying, T>(r, N, make_list_view(lst));
            read_after<S>(r, lst);
            return true;
        default: break;
    }
    if constexpr (!Varying)
    {
        switch (form)
        {
            case PTR:
            {
                const S* p = vec.data();
                do_emplace<false, T>(r, N, p);
                read_after<S>(r, vec);
                return true;
            }
            case VEC_IT:
                do_emplace<false, T>(r, N, vec.begin());
                read_after<S>(r, vec);
                return true;
            case LIST_IT:
                do_emplace<false, T>(r, N, lst.begin());
                read_after<S>(r, lst);
                return true;
            case MOVE_IT:
                do_emplace<false, T>(r, N, std::make_move_iterator(vec.begin()));
                read_after<S>(r, vec);
                return true;
            case REV_IT:
                do_emplace<false, T>(r, N, vec.rbegin());
                read_after<S>(r, vec);
                return true;
            default: break;
        }
    }
    return false;
}

template <class S, class T>
std::string run_case(const char* conv, int varying, int form, int n)
{
    Result r;
    bool ok = false;
    auto go = [&](auto nn)
    {
        constexpr std::size_t NN = decltype(nn)::value;
        ok = varying ? run_form<true, S, T, NN>(form, r) : run_form<false, S, T, NN>(form, r);
    };
    switch (n)
    {
        case 0: go(std::integral_constant<std::size_t, 0>{}); break;
        case 1: go(std::integral_constant<std::size_t, 1>{}); break;
        case 2: go(std::integral_constant<std::size_t, 2>{}); break;
        default: go(std::integral_constant<std::size_t, 3>{});
    }
    std::ostringstream o;
    o << "{\"e\":\"src\",\"conv\":\"" << conv << "\",\"varying\":" << varying << ",\"form\":" << form << ",\"n\":" << n
      << ",\"ran\":" << (ok ? 1 : 0) << ",\"count\":" << r.stored_count << ",\"stored\":[";
    for (std::size_t i = 0; i < r.stored.size(); ++i) o << (i ? "," : "") << r.stored[i];
    o << "],\"hasafter\":" << (r.has_after ? 1 : 0) << ",\"after\":[";
    for (std::size_t i = 0; i < r.after.size(); ++i) o << (i ? "," : "") << r.after[i];
    o << "],\"copies\":[";
    for (int i = 0; i < n; ++i) o << (i ? "," : "") << counters().copies[i];
    o << "],\"moves\":[";
    for (int i = 0; i < n; ++i) o << (i ? "," : "") << counters().moves[i];
    o << "],\"incs\":" << gen_stats().incs << ",\"derefs\":" << gen_stats().derefs << "}";
    return o.str();
}

// plan lines: "<varying> <form> <n>"; usage: sources <plan> <out>
template <class S, class T>
int sources_main(const char* conv, int argc, char** argv)
{
    if (argc < 3) return 3;
    std::ifstream in(argv[1]);
    std::ofstream out(argv[2]);
    int varying, form, n;
    while (in >> varying >> form >> n)
    {
        int fds[2];
        if (pipe(fds) != 0) return 3;
        pid_t pid = fork();
        if (pid == 0)
        {
            close(fds[0]);
            alarm(10);
            std::string s = run_case<S, T>(conv, varying, form, n);
            s += "\n";
            if (write(fds[1], s.data(), s.size()) < 0) _exit(4);
            _exit(0);
        }
        close(fds[1]);
        std::string got;
        char buf[4096];
        ssize_t k;
        while ((k = read(fds[0], buf, sizeof buf)) > 0) got.append(buf, static_cast<std::size_t>(k));
        close(fds[0]);
        int status = 0;
        waitpid(pid, &status, 0);
        if (WIFEXITED(status) && WEXITSTATUS(status) == 0 && !got.empty())
            out << got;
        else
            out << "{\"e\":\"srccrash\",\"conv\":\"" << conv << "\",\"varying\":" << varying << ",\"form\":" << form
                << ",\"n\":" << n << ",\"status\":" << status << "}\n";
        out.flush();
    }
    return 0;
}
}  // namespace vsrc

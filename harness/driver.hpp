// Generic driver: executes histories (plans emitted from the TLA+ specification) on the REAL cntgs templates and
// records, after every operation, the complete projection of every live container.  It contains no expectations:
// spec/Trace.tla is the oracle for every recorded step.
#pragma once
#ifdef VERIF_LAYOUT_ONLY
// driver for the layout universe: construct, emplace_back, reserve and the projection only
#define VERIF_NO_COPY
#define VERIF_NO_ELEM
#define VERIF_NO_MUTATE
#endif
#include "ledger.hpp"
#include "values.hpp"

#include <cntgs/contiguous.hpp>

#include <fcntl.h>
#include <signal.h>
#include <sys/wait.h>
#include <unistd.h>

#include <array>
#include <cstddef>
#include <cstdint>
#include <cstring>
#include <fstream>
#include <iostream>
#include <sstream>
#include <string>
#include <tuple>
#include <utility>
#include <vector>

namespace verif
{
enum PKind
{
    PLAIN = 0,
    COUNT = 1,
    FIXED = 2,
    VARYING = 3
};

// ---- own parameter introspection (does not use cntgs::detail) ------------------------------------------------
template <class P>
struct PInfo
{
    using T = P;
    static constexpr int kind = PLAIN;
    static constexpr std::size_t al = 1;
};
template <class T_, std::size_t A>
struct PInfo<cntgs::AlignAs<T_, A>>
{
    using T = T_;
    static constexpr int kind = PLAIN;
    static constexpr std::size_t al = A;
};
template <class X>
struct PInfo<cntgs::FixedSize<X>>
{
    using T = typename PInfo<X>::T;
    static constexpr int kind = FIXED;
    static constexpr std::size_t al = PInfo<X>::al;
};
template <class X>
struct PInfo<cntgs::VaryingSize<X>>
{
    using T = typename PInfo<X>::T;
    static constexpr int kind = VARYING;
    static constexpr std::size_t al = PInfo<X>::al;
};

template <class... Ps>
struct ParamList
{
    static constexpr std::size_t N = sizeof...(Ps);
    using Tuple = std::tuple<Ps...>;
    template <std::size_t I>
    using Param = std::tuple_element_t<I, Tuple>;
    template <std::size_t I>
    using Info = PInfo<Param<I>>;
    template <std::size_t I>
    using T = typename Info<I>::T;

    template <std::size_t I>
    static constexpr int kind()
    {
        if constexpr (Info<I>::kind == PLAIN && I + 1 < N)
        {
            if constexpr (Info<I + 1>::kind == VARYING) return COUNT;
        }
        return Info<I>::kind;
    }
    // index of parameter I among the FixedSize parameters
    template <std::size_t I>
    static constexpr std::size_t fixed_index()
    {
        std::size_t n = 0;
        std::size_t i = 0;
        ((i < I ? (n += (PInfo<Ps>::kind == FIXED ? 1 : 0), ++i) : i), ...);
        return n;
    }
    static constexpr std::size_t NFIXED = (std::size_t{} + ... + (PInfo<Ps>::kind == FIXED ? 1 : 0));
    static constexpr std::size_t NVARYING = (std::size_t{} + ... + (PInfo<Ps>::kind == VARYING ? 1 : 0));
    static constexpr bool all_plain = NFIXED == 0 && NVARYING == 0;
    static constexpr bool all_fixed = NFIXED > 0 && NVARYING == 0;
    static constexpr bool all_varying = NFIXED == 0 && NVARYING > 0;
    static constexpr bool mixed = NFIXED > 0 && NVARYING > 0;

    template <class A>
    using Vec = cntgs::BasicContiguousVector<cntgs::Options<cntgs::Allocator<A>>, Ps...>;
};

template <class X>
struct IsSpan : std::false_type
{
};
template <class T>
struct IsSpan<cntgs::Span<T>> : std::true_type
{
};

inline int val_of(int t, int salt, int k, int j) { return ((t * 7 + salt * 13 + k * 5 + j * 3) % 240) + 1; }

inline int valc_of(int code, int k)
{
    int d = code;
    for (int q = 1; q < k; ++q) d /= 3;
    return (d % 3) + 1;
}

inline long clampl(long x)
{
    const long L = 1L << 30;
    return x > L ? L : (x < -L ? -L : x);
}

struct Op
{
    std::string n;
    int v = 0;
    std::vector<int> a;
};

struct History
{
    long h = 0;
    std::vector<Op> ops;
    int random_len = 0;       // > 0: the driver itself draws this many operations (plan line "R <len> <seed>")
    unsigned random_seed = 0;
};

struct Progress
{
    volatile long hist_index;
    volatile long step;
    volatile long h;
    volatile long v;
    volatile long na;
    volatile long a[8];
    char opname[32];
};

struct Out
{
    int fd = -1;
    void line(const std::string& s)
    {
        std::string t = s;
        t += '\n';
        const char* p = t.data();
        std::size_t n = t.size();
        while (n)
        {
            ssize_t w = ::write(fd, p, n);
            if (w <= 0) _exit(4);
            p += w;
            n -= static_cast<std::size_t>(w);
        }
    }
};

template <std::size_t N>
struct SB;
#define VERIF_SB(N, ...)                                 \
    template <>                                          \
    struct SB<N>                                         \
    {                                                    \
        template <class R, class Fn>                     \
        static auto apply(R&& r, Fn&& fn)                \
        {                                                \
            auto&& [__VA_ARGS__] = r;                    \
            return fn(__VA_ARGS__);                      \
        }                                                \
    };
VERIF_SB(1, a)
VERIF_SB(2, a, b)
VERIF_SB(3, a, b, c)
VERIF_SB(4, a, b, c, d)
VERIF_SB(5, a, b, c, d, e)
VERIF_SB(6, a, b, c, d, e, f)
VERIF_SB(7, a, b, c, d, e, f, g)
#undef VERIF_SB

template <class Cfg>
struct Driver
{
    using PL = typename Cfg::Params;
    using Vec = typename PL::template Vec<typename Cfg::Alloc>;
    using VAlloc = typename Vec::allocator_type;
    static constexpr std::size_t N = PL::N;
    static constexpr int NV = 3;
    static constexpr std::size_t MAXPROJ = 8;

    alignas(Vec) unsigned char vstore[NV + 1][sizeof(Vec)];
    int vstate[NV + 1] = {0, 0, 0, 0};  // 0 absent 1 live 2 moved-from
    std::array<std::size_t, PL::NFIXED> vfixed[NV + 1] = {};  // FixedSize counts each vector was given (driver bookkeeping)
    using Elem = typename Vec::value_type;
    static constexpr int NE = 3;
    alignas(Elem) unsigned char estore[NE + 1][sizeof(Elem)];
    int estate[NE + 1] = {0, 0, 0, 0};  // 0 absent 1 live 2 moved-from
    Elem& E(int x) { return *std::launder(reinterpret_cast<Elem*>(estore[x])); }
    // twins: the same contents in a vector with a DIFFERENT allocator type (std::allocator), maintained for the
    // comparison scenario only (C13/C14: results must not depend on the allocator combination)
    using Twin = typename PL::template Vec<std::allocator<std::byte>>;
    using TwinElem = typename Twin::value_type;
    alignas(Twin) unsigned char tstore[NV + 1][sizeof(Twin)];
    int tstate[NV + 1] = {0, 0, 0, 0};
    std::size_t last_construct[NV + 1][2] = {};
    bool as_constructed[NV + 1] = {};  // nothing but EmplaceC / CmpAll happened to the vector since its Construct
    Twin& TW(int v) { return *std::launder(reinterpret_cast<Twin*>(tstore[v])); }
    void drop_twin(int v)
    {
        if (tstate[v])
        {
            TW(v).~Twin();
            tstate[v] = 0;
        }
    }
    int salt_counter = 0;
    int pending_fault = 0;  // "Fail k": the k-th allocation of the next operation throws
    Out* out = nullptr;
    long h = 0;
    long step = 0;

    Vec& V(int v) { return *std::launder(reinterpret_cast<Vec*>(vstore[v])); }

    // ---------------------------------------------------------------- configuration line
    template <std::size_t I>
    static std::string param_json()
    {
        using T = typename PL::template T<I>;
        static const char* names[] = {"plain", "count", "fixed", "varying"};
        std::ostringstream o;
        o << "{\"k\":\"" << names[PL::template kind<I>()] << "\",\"sz\":" << sizeof(T)
          << ",\"al\":" << PL::template Info<I>::al
          << ",\"triv\":" << (std::is_trivially_copyable_v<T> || IS_CELL<T> ? 1 : 0)   // Cell: no lifetime events
          << ",\"flt\":" << (std::is_floating_point_v<T> ? 1 : 0)
          << ",\"sgn\":" << ((std::is_integral_v<T> && std::is_signed_v<T>) ? 1 : 0) << "}";
        return o.str();
    }
    template <std::size_t... I>
    static std::string params_json(std::index_sequence<I...>)
    {
        std::string s = "[";
        ((s += (I ? "," : ""), s += param_json<I>()), ...);
        return s + "]";
    }
    template <std::size_t I>
    static std::size_t fixed_count()
    {
        if constexpr (PL::template Info<I>::kind == FIXED)
            return Cfg::fixed[PL::template fixed_index<I>()];
        else
            return 0;
    }
    template <std::size_t... I>
    static std::string fixed_json(std::index_sequence<I...>)
    {
        std::string s = "[";
        ((s += (I ? "," : ""), s += std::to_string(fixed_count<I>())), ...);
        return s + "]";
    }
    static std::string cfg_json(unsigned seed, const char* build)
    {
        using K = typename Cfg::Kind;
        std::ostringstream o;
        o << "{\"e\":\"cfg\",\"id\":\"" << Cfg::id << "\",\"P\":" << params_json(std::make_index_sequence<N>{})
          << ",\"F\":" << fixed_json(std::make_index_sequence<N>{}) << ",\"S\":" << alignof(typename VAlloc::value_type)
          << ",\"pocca\":" << K::pocca << ",\"pocma\":" << K::pocma << ",\"pocs\":" << K::pocs << ",\"ae\":" << K::ae
          << ",\"soccfresh\":" << K::soccfresh << ",\"seed\":" << seed << ",\"build\":\"" << build << "\"}";
        return o.str();
    }

    // ---------------------------------------------------------------- projection
    template <class X>
    static std::string field_json(X&& x, std::uintptr_t vbase)
    {
        using D = std::remove_cv_t<std::remove_reference_t<X>>;
        std::ostringstream o;
        if constexpr (IsSpan<D>::value)
        {
            using T = typename D::value_type;
            const long n = static_cast<long>(x.size());
            o << "{\"o\":" << clampl(static_cast<long>(reinterpret_cast<std::uintptr_t>(x.data()) - vbase))
              << ",\"n\":" << clampl(n) << ",\"v\":[";
            const long m = n < 0 ? 0 : (n > 16 ? 16 : n);
            for (long j = 0; j < m; ++j) o << (j ? "," : "") << VT<T>::decode(x.data()[j]);
            o << "]}";
        }
        else
        {
            using T = D;
            o << "{\"o\":" << clampl(static_cast<long>(reinterpret_cast<std::uintptr_t>(std::addressof(x)) - vbase))
              << ",\"n\":1,\"v\":[" << VT<T>::decode(x) << "]}";
        }
        return o.str();
    }

    template <class Ref, std::size_t... I>
    static std::string fields_by_get(const Ref& r, std::uintptr_t vbase, std::index_sequence<I...>)
    {
        std::string s = "[";
        ((s += (I ? "," : ""), s += field_json(cntgs::get<I>(r), vbase)), ...);
        return s + "]";
    }
    template <class Ref>
    static std::string fields_by_binding(Ref&& r, std::uintptr_t vbase)
    {
        return SB<N>::apply(r,
                            [&](auto&&... x)
                            {
                                std::string s = "[";
                                std::size_t i = 0;
                                ((s += (i++ ? "," : ""), s += field_json(x, vbase)), ...);
                                return s + "]";
                            });
    }

    template <class Ref>
    static std::string elem_json(const Ref& r, const void* itd, std::uintptr_t vbase, bool use_sb)
    {
        std::ostringstream o;
        o << "{\"rb\":" << clampl(static_cast<long>(reinterpret_cast<std::uintptr_t>(r.data_begin()) - vbase))
          << ",\"re\":" << clampl(static_cast<long>(reinterpret_cast<std::uintptr_t>(r.data_end()) - vbase))
          << ",\"itd\":" << clampl(static_cast<long>(reinterpret_cast<std::uintptr_t>(itd) - vbase)) << ",\"f\":";
        if (use_sb)
            o << fields_by_binding(r, vbase);
        else
            o << fields_by_get(r, vbase, std::make_index_sequence<N>{});
        o << "}";
        return o.str();
    }

    // one path = the JSON list of all elements read through that access path
    std::string path_json(Vec& vec, int path, std::uintptr_t vbase, std::size_t n)
    {
        const Vec& cvec = vec;
        std::string s = "[";
        for (std::size_t i = 0; i < n; ++i)
        {
            if (i) s += ",";
            switch (path)
            {
                case 0:  // operator[] + get<I>
                    s += elem_json(vec[i], (vec.begin() + static_cast<std::ptrdiff_t>(i)).data(), vbase, false);
                    break;
                case 1:  // iterator
                {
                    auto it = vec.begin();
                    for (std::size_t q = 0; q < i; ++q) ++it;
                    s += elem_json(*it, it.data(), vbase, false);
                    break;
                }
                case 2:  // const operator[]
                    s += elem_json(cvec[i], (cvec.begin() + static_cast<std::ptrdiff_t>(i)).data(), vbase, false);
                    break;
                case 3:  // const_iterator from the end
                {
                    auto it = cvec.end();
                    it -= static_cast<std::ptrdiff_t>(n - i);
                    s += elem_json(*it, it.data(), vbase, false);
                    break;
                }
                case 4:  // front()/back() where they apply
                    if (i == 0)
                        s += elem_json(vec.front(), vec.begin().data(), vbase, false);
                    else if (i + 1 == n)
                        s += elem_json(cvec.back(), (cvec.cbegin() + static_cast<std::ptrdiff_t>(i)).data(), vbase,
                                       false);
                    else
                        s += elem_json(vec.begin()[static_cast<std::ptrdiff_t>(i)],
                                       (vec.begin() + static_cast<std::ptrdiff_t>(i)).data(), vbase, false);
                    break;
                default:  // structured bindings
                    s += elem_json(vec[i], (vec.begin() + static_cast<std::ptrdiff_t>(i)).data(), vbase, true);
            }
        }
        return s + "]";
    }

    template <std::size_t... I>
    std::string fixed_obs_json(const Vec& vec, std::index_sequence<I...>)
    {
        std::string s = "[";
        (
            [&]
            {
                s += (I ? "," : "");
                if constexpr (PL::template Info<I>::kind == FIXED)
                    s += std::to_string(vec.template get_fixed_size<PL::template fixed_index<I>()>());
                else
                    s += "0";
            }(),
            ...);
        return s + "]";
    }

    std::string vec_obs(int v)
    {
        std::ostringstream o;
        Vec& vec = V(v);
        const Vec& cvec = vec;
        o << "{\"v\":" << v << ",\"st\":\"" << (vstate[v] == 1 ? "live" : "moved") << "\",\"al\":"
          << cvec.get_allocator().inst;
        if (vstate[v] != 1)
        {
            o << "}";
            return o.str();
        }
        const std::size_t size = cvec.size();
        const void* db = cvec.data_begin();
        const void* de = cvec.data_end();
        Loc ldb = ledger().locate(db);
        const Block* blk = ldb.blk > 0 ? ledger().find(ldb.blk) : nullptr;
        const std::uintptr_t vbase = blk ? reinterpret_cast<std::uintptr_t>(blk->base) : 0;
        o << ",\"size\":" << clampl(static_cast<long>(size)) << ",\"cap\":" << clampl(static_cast<long>(cvec.capacity()))
          << ",\"empty\":" << (cvec.empty() ? 1 : 0)
          << ",\"bie\":" << (vec.begin() == vec.end() ? 1 : 0)
          << ",\"mc\":" << clampl(static_cast<long>(cvec.memory_consumption())) << ",\"blk\":" << ldb.blk
          << ",\"blive\":" << (blk && blk->live ? 1 : 0) << ",\"binst\":" << (blk ? blk->inst : 0)
          << ",\"bsz\":" << (blk ? static_cast<long>(blk->bytes) : 0) << ",\"res\":" << (vbase % 4096) << ",\"db\":"
          << (db ? clampl(static_cast<long>(reinterpret_cast<std::uintptr_t>(db) - vbase)) : 0) << ",\"de\":"
          << (de ? clampl(static_cast<long>(reinterpret_cast<std::uintptr_t>(de) - vbase)) : 0)
          << ",\"dbnull\":" << (db ? 0 : 1) << ",\"denull\":" << (de ? 0 : 1)
          << ",\"fx\":" << fixed_obs_json(cvec, std::make_index_sequence<N>{});
        const std::size_t n = size > MAXPROJ ? MAXPROJ : size;
        std::vector<std::string> distinct;
        std::string pn = "[";
#ifdef VERIF_LAYOUT_ONLY
        static constexpr int paths[] = {0, 3};
#else
        static constexpr int paths[] = {0, 1, 2, 3, 4, 5};
#endif
        bool firstpath = true;
        for (int path : paths)
        {
            std::string pj = path_json(vec, path, vbase, n);
            std::size_t k = 0;
            for (; k < distinct.size(); ++k)
                if (distinct[k] == pj) break;
            if (k == distinct.size()) distinct.push_back(pj);
            pn += (path ? "," : "");
            pn += std::to_string(k + 1);
        }
        pn += "]";
        o << ",\"P\":[";
        for (std::size_t k = 0; k < distinct.size(); ++k) o << (k ? "," : "") << distinct[k];
        o << "],\"pn\":" << pn << "}";
        return o.str();
    }

#ifndef VERIF_NO_ELEM
    std::string el_path_json(Elem& e, int path, std::uintptr_t base)
    {
        const Elem& ce = e;
        switch (path)
        {
            case 0:
            {
                typename Vec::reference r(e);
                std::ostringstream o;
                o << "{\"rb\":" << clampl(static_cast<long>(reinterpret_cast<std::uintptr_t>(r.data_begin()) - base))
                  << ",\"re\":" << clampl(static_cast<long>(reinterpret_cast<std::uintptr_t>(r.data_end()) - base))
                  << ",\"itd\":" << clampl(static_cast<long>(reinterpret_cast<std::uintptr_t>(r.data_begin()) - base))
                  << ",\"f\":" << fields_by_get(e, base, std::make_index_sequence<N>{}) << "}";
                return o.str();
            }
            case 1:
            {
                typename Vec::const_reference r(ce);
                std::ostringstream o;
                o << "{\"rb\":" << clampl(static_cast<long>(reinterpret_cast<std::uintptr_t>(r.data_begin()) - base))
                  << ",\"re\":" << clampl(static_cast<long>(reinterpret_cast<std::uintptr_t>(r.data_end()) - base))
                  << ",\"itd\":" << clampl(static_cast<long>(reinterpret_cast<std::uintptr_t>(r.data_begin()) - base))
                  << ",\"f\":" << fields_by_get(ce, base, std::make_index_sequence<N>{}) << "}";
                return o.str();
            }
            case 2:
            {
                typename Vec::const_reference r(ce);
                return elem_json(r, r.data_begin(), base, false);
            }
            default:
            {
#ifndef VERIF_NO_ELEM_SB
                typename Vec::reference r(e);
                std::ostringstream o;
                o << "{\"rb\":" << clampl(static_cast<long>(reinterpret_cast<std::uintptr_t>(r.data_begin()) - base))
                  << ",\"re\":" << clampl(static_cast<long>(reinterpret_cast<std::uintptr_t>(r.data_end()) - base))
                  << ",\"itd\":" << clampl(static_cast<long>(reinterpret_cast<std::uintptr_t>(r.data_begin()) - base))
                  << ",\"f\":" << fields_by_binding(e, base) << "}";
                return o.str();
#else
                typename Vec::reference r(e);
                return elem_json(r, r.data_begin(), base, false);
#endif
            }
        }
    }

    std::string el_obs(int x)
    {
        std::ostringstream o;
        Elem& e = E(x);
        const Elem& ce = e;
        o << "{\"x\":" << x << ",\"st\":\"" << (estate[x] == 1 ? "live" : "moved") << "\",\"al\":"
          << ce.get_allocator().inst;
        if (estate[x] != 1)
        {
            o << "}";
            return o.str();
        }
        typename Vec::const_reference r(ce);
        const void* db = r.data_begin();
        Loc l = ledger().locate(db);
        const Block* blk = l.blk > 0 ? ledger().find(l.blk) : nullptr;
        const std::uintptr_t base = blk ? reinterpret_cast<std::uintptr_t>(blk->base) : 0;
        o << ",\"blk\":" << l.blk << ",\"blive\":" << (blk && blk->live ? 1 : 0) << ",\"binst\":" << (blk ? blk->inst : 0)
          << ",\"bsz\":" << (blk ? static_cast<long>(blk->bytes) : 0) << ",\"res\":" << (base % 4096);
        std::vector<std::string> distinct;
        std::string pn = "[";
        for (int path = 0; path < 4; ++path)
        {
            std::string pj = el_path_json(e, path, base);
            std::size_t k = 0;
            for (; k < distinct.size(); ++k)
                if (distinct[k] == pj) break;
            if (k == distinct.size()) distinct.push_back(pj);
            pn += (path ? "," : "");
            pn += std::to_string(k + 1);
        }
        pn += "]";
        o << ",\"P\":[";
        for (std::size_t k = 0; k < distinct.size(); ++k) o << (k ? "," : "") << distinct[k];
        o << "],\"pn\":" << pn << "}";
        return o.str();
    }
#endif

    std::string all_el_obs()
    {
        std::string s = "[";
#ifndef VERIF_NO_ELEM
        bool first = true;
        for (int x = 1; x <= NE; ++x)
        {
            if (!estate[x]) continue;
            if (!first) s += ",";
            first = false;
            s += el_obs(x);
        }
#endif
        return s + "]";
    }

    std::string all_obs()
    {
        std::string s = "[";
        bool first = true;
        for (int v = 1; v <= NV; ++v)
        {
            if (!vstate[v]) continue;
            if (!first) s += ",";
            first = false;
            s += vec_obs(v);
        }
        return s + "]";
    }

    // ---------------------------------------------------------------- writes through proxies, iterator table
    template <class X>
    static void write_field(X&& x, int q, int val)
    {
        using D = std::remove_cv_t<std::remove_reference_t<X>>;
        if constexpr (IsSpan<D>::value)
        {
            using T = typename D::value_type;
            x[static_cast<std::size_t>(q - 1)] = VT<T>::make(val);
        }
        else
        {
            x = VT<D>::make(val);
        }
    }
    template <class Ref, std::size_t... I>
    static void write_via_get(Ref&& r, int k, int q, int val, std::index_sequence<I...>)
    {
        ((static_cast<int>(I) + 1 == k ? write_field(cntgs::get<I>(r), q, val) : void()), ...);
    }
    template <class Ref, std::size_t... I>
    static void write_via_binding(Ref&& r, int k, int q, int val, std::index_sequence<I...>)
    {
        SB<N>::apply(r,
                     [&](auto&&... x)
                     {
                         auto t = std::forward_as_tuple(x...);
                         ((static_cast<int>(I) + 1 == k ? write_field(std::get<I>(t), q, val) : void()), ...);
                         return 0;
                     });
    }
    template <std::size_t... I>
    void write_item(Vec& vec, std::size_t i, int k, int q, int val, int path, std::index_sequence<I...> seq)
    {
        const std::size_t n = vec.size();
        switch (path)
        {
            case 0: write_via_get(vec[i], k, q, val, seq); break;
            case 1: write_via_get(*(vec.begin() + static_cast<std::ptrdiff_t>(i)), k, q, val, seq); break;
            case 2:
                if (i == 0)
                    write_via_get(vec.front(), k, q, val, seq);
                else if (i + 1 == n)
                    write_via_get(vec.back(), k, q, val, seq);
                else
                    write_via_get(*((vec.begin() + static_cast<std::ptrdiff_t>(i)).operator->().operator->()), k, q,
                                  val, seq);
                break;
            case 3: write_via_binding(vec[i], k, q, val, seq); break;
            case 4: write_via_get(vec.begin()[static_cast<std::ptrdiff_t>(i)], k, q, val, seq); break;
            default: write_via_get(*(vec.end() - static_cast<std::ptrdiff_t>(n - i)), k, q, val, seq);
        }
    }

    // complete table of iterator arithmetic and comparisons for all positions 0..size (C11)
    std::string iter_table(Vec& vec)
    {
        const Vec& cvec = vec;
        const std::ptrdiff_t n = static_cast<std::ptrdiff_t>(vec.size());
        std::ostringstream o;
        o << "[";
        bool first = true;
        for (std::ptrdiff_t i = 0; i <= n; ++i)
        {
            for (std::ptrdiff_t j = 0; j <= n; ++j)
            {
                auto a = vec.begin() + i;
                auto b = vec.begin();
                b += j;
                typename Vec::const_iterator ca = cvec.end() - (n - i);
                auto inc = a;
                auto dec = a;
                long incidx = -1, decidx = -1, postidx = -1;
                if (i < n)
                {
                    postidx = static_cast<long>((inc++).index());
                    incidx = static_cast<long>(inc.index());
                }
                if (i > 0) decidx = static_cast<long>((--dec).index());
                o << (first ? "" : ",") << "[" << i << "," << j << "," << (b - a) << "," << (a < b) << "," << (a <= b)
                  << "," << (a == b) << "," << (a > b) << "," << (a >= b) << "," << (a != b) << ","
                  << (a + (j - i)).index() << "," << (b - (j - i)).index() << "," << ca.index() << "," << (ca == typename Vec::const_iterator(a))
                  << "," << incidx << "," << decidx << "," << postidx << "]";
                first = false;
            }
        }
        o << "]";
        return o.str();
    }

    // ---------------------------------------------------------------- API surface (C20 group API)
    // Documented forms that no scenario needs as an operation of its own; executed once by the "ApiSurface" op on a
    // live, non-empty vector so that they are instantiated AND run (results are folded into one number that the
    // trace ignores; a crash or sanitizer report is a verdict like any other).
#ifndef VERIF_NO_API
    long api_surface(Vec& vec)
    {
        const Vec& cvec = vec;
        long acc = 0;
        // iterators: default construction, conversions, converting assignment, arrow, reverse/const begin-end
        typename Vec::iterator it0 = vec.begin();
        typename Vec::const_iterator cit0 = cvec.end();
        cit0 = it0;                                     // iterator -> const_iterator (converting assignment)
        typename Vec::const_iterator cit1(it0);         // converting construction
        acc += static_cast<long>(cit1.index()) + (cit0 == cit1 ? 1 : 0) + (cvec.cbegin() == cvec.begin() ? 1 : 0) +
               (cvec.cend() - cvec.cbegin());
        acc += static_cast<long>(it0->size_in_bytes());  // operator-> (ArrowProxy)
        auto rb = std::make_reverse_iterator(vec.end());
        acc += static_cast<long>((*rb).size_in_bytes());
        // references: copy construction, conversion to const, structured bindings of const references
        typename Vec::reference r = vec[0];
        typename Vec::const_reference cr = r;
        typename Vec::const_reference cr2 = cvec[0];
        acc += SB<N>::apply(cr2, [](auto&&...) { return 1; });
        acc += (cr == cr2 ? 1 : 0) + (r == cr ? 1 : 0) + (cr != r ? 1 : 0) + (r <= cr ? 1 : 0) + (cr >= r ? 1 : 0);
        acc += static_cast<long>(cr.data_end() - cr.data_begin());
        // elements: every constructor form, get<I> on lvalue / const / rvalue, conversion back to a reference
#ifndef VERIF_NO_ELEM
        Elem e1(cr);                                    // from const reference, default allocator
        Elem e2(cr, cvec.get_allocator());              // ... with allocator
        Elem e3(e1);                                    // copy
        Elem e4(std::move(e3));                         // move
        Elem e5(e1, cvec.get_allocator());              // allocator-extended copy
        Elem e6(std::move(e5), cvec.get_allocator());   // allocator-extended move
        const Elem& ce1 = e1;
        acc += (e1 == e2 ? 1 : 0) + (e4 == ce1 ? 1 : 0) + (e6 != e1 ? 1 : 0) + (e1 < e2 ? 1 : 0) + (e1 >= e2 ? 1 : 0);
        acc += (ce1 == cr ? 1 : 0) + (cr == ce1 ? 1 : 0) + (e1 <= r ? 1 : 0) + (r > e1 ? 1 : 0);
        typename Vec::const_reference from_elem(ce1);
        typename Vec::reference from_elem_mut(e1);
        acc += (from_elem == from_elem_mut ? 1 : 0);
        acc += api_get_forms(e1, ce1, std::make_index_sequence<N>{});
#ifndef VERIF_NO_ELEM_SB
        acc += SB<N>::apply(ce1, [](auto&&...) { return 1; });   // const auto& [a, b, ...] = element
#endif
        using std::swap;
        swap(e1, e2);
        e2 = e1;
        e4 = std::move(e2);
        acc += e1.get_allocator() == cvec.get_allocator() ? 1 : 0;
#endif
        // vector: data(), memory_consumption(), get_fixed_size, comparison with itself through a const view
        acc += (vec.data() == cvec.data() ? 1 : 0) + (vec.data_begin() <= vec.data_end() ? 1 : 0) +
               static_cast<long>(cvec.memory_consumption() > 0) + (cvec == vec ? 1 : 0) + (cvec <= vec ? 1 : 0);
        acc += (vec.front() == cvec.front() ? 1 : 0) + (vec.back() == cvec.back() ? 1 : 0);
        for (auto&& ref : vec) acc += static_cast<long>(ref.size_in_bytes() > 0);
        for (auto&& ref : cvec) acc += static_cast<long>(ref.size_in_bytes() > 0);
        return acc;
    }
#ifndef VERIF_NO_ELEM
    template <std::size_t... I>
    static long api_get_forms(Elem& e, const Elem& ce, std::index_sequence<I...>)
    {
        long n = 0;
        (((void)cntgs::get<I>(e), ++n), ...);
        (((void)cntgs::get<I>(ce), ++n), ...);
        // get<I>(Element&&) and get<I>(const Element&) must denote what get<I>(Element&) denotes
        Elem tmp(ce);
        const bool same = (same_field(cntgs::get<I>(e), cntgs::get<I>(std::move(tmp))) && ...) &&
                          (same_field(cntgs::get<I>(e), cntgs::get<I>(ce)) && ...) &&
                          (same_field(cntgs::get<I>(e), cntgs::get<I>(std::move(ce))) && ...);   // get<I>(const Element&&)
        if (!same)
        {
            fprintf(stderr, "VERIF-API: get<I> of an rvalue / const element differs from get<I> of the element\n");
            abort();
        }
        return n;
    }
    template <class A, class B>
    static bool same_field(const A& a, const B& b)
    {
        if constexpr (std::is_class_v<A> && !VT<A>::tracked && !std::is_same_v<A, std::string> && !IS_BLOB<A> && !IS_CELL<A>)
            return a.size() == b.size() && std::equal(a.begin(), a.end(), b.begin());   // spans
        else
            return a == b;
    }
#endif
#endif

    // ---------------------------------------------------------------- comparison truth tables (C13, C14)
#ifndef VERIF_NO_CMP
    template <class A, class B>
    static std::string cmp_matrix(const char* name, const std::vector<A>& as, const std::vector<B>& bs)
    {
        const std::size_t n = as.size();
        std::ostringstream o;
        o << "{\"k\":\"" << name << "\"";
        auto table = [&](const char* opn, auto fn)
        {
            o << ",\"" << opn << "\":[";
            for (std::size_t i = 0; i < n; ++i)
            {
                o << (i ? "," : "") << "[";
                for (std::size_t j = 0; j < n; ++j) o << (j ? "," : "") << (fn(as[i], bs[j]) ? 1 : 0);
                o << "]";
            }
            o << "]";
        };
        table("eq", [](const A& x, const B& y) { return x == y; });
        table("ne", [](const A& x, const B& y) { return x != y; });
        table("lt", [](const A& x, const B& y) { return x < y; });
        table("le", [](const A& x, const B& y) { return x <= y; });
        table("gt", [](const A& x, const B& y) { return x > y; });
        table("ge", [](const A& x, const B& y) { return x >= y; });
        o << "}";
        return o.str();
    }

    std::string cmp_all(Vec& a, Vec& b, Twin* tb, Twin* ta)
    {
        const Vec& ca = a;
        const Vec& cb = b;
        std::vector<typename Vec::reference> R;
        std::vector<typename Vec::const_reference> C;
        std::vector<Elem> E;
        const std::size_t n1 = a.size(), n2 = b.size();
        E.reserve(n1 + n2);
        for (std::size_t i = 0; i < n1; ++i)
        {
            R.push_back(a[i]);
            C.push_back(ca[i]);
            E.emplace_back(ca[i]);
        }
        for (std::size_t i = 0; i < n2; ++i)
        {
            R.push_back(b[i]);
            C.push_back(cb[i]);
            E.emplace_back(cb[i]);
        }
        std::ostringstream o;
        o << "{\"n1\":" << n1 << ",\"n2\":" << n2 << ",\"vv\":[" << (ca == cb) << "," << (ca != cb) << "," << (ca < cb)
          << "," << (ca <= cb) << "," << (ca > cb) << "," << (ca >= cb) << "," << (cb == ca) << "," << (cb != ca) << ","
          << (cb < ca) << "," << (cb <= ca) << "," << (cb > ca) << "," << (cb >= ca) << "],\"K\":["
          << cmp_matrix("rr", R, R) << "," << cmp_matrix("cr", C, R) << "," << cmp_matrix("rc", R, C) << ","
          << cmp_matrix("cc", C, C) << "," << cmp_matrix("er", E, R) << "," << cmp_matrix("re", R, E) << ","
          << cmp_matrix("ec", E, C) << "," << cmp_matrix("ee", E, E);
        if (ta && tb)
        {
            // operands with another allocator type: twin elements (value_type of the std::allocator vector) and
            // the twin vectors themselves
            const Twin& cta = *ta;
            const Twin& ctb = *tb;
            std::vector<TwinElem> X;
            X.reserve(n1 + n2);
            for (std::size_t i = 0; i < n1; ++i) X.emplace_back(cta[i]);
            for (std::size_t i = 0; i < n2; ++i) X.emplace_back(ctb[i]);
            o << "," << cmp_matrix("xr", X, R) << "," << cmp_matrix("cx", C, X);
            o << "],\"vx\":[" << (ca == ctb) << "," << (ca != ctb) << "," << (ca < ctb) << "," << (ca <= ctb) << ","
              << (ca > ctb) << "," << (ca >= ctb) << "," << (ctb == ca) << "," << (ctb != ca) << "," << (ctb < ca) << ","
              << (ctb <= ca) << "," << (ctb > ca) << "," << (ctb >= ca) << "]}";
        }
        else
            o << "],\"vx\":[]}";
        return o.str();
    }
#endif

    // ---------------------------------------------------------------- arguments
    template <std::size_t I>
    std::size_t fixed_count_of(int v)
    {
        if constexpr (PL::template Info<I>::kind == FIXED)
            return vfixed[v][PL::template fixed_index<I>()];
        else
            return 0;
    }

    template <std::size_t... I>
    void read_fixed_sizes(int v, std::index_sequence<I...>)
    {
        const Vec& cvec = V(v);
        (
            [&]
            {
                if constexpr (PL::template Info<I>::kind == FIXED)
                    vfixed[v][PL::template fixed_index<I>()] =
                        cvec.template get_fixed_size<PL::template fixed_index<I>()>();
            }(),
            ...);
        (void)cvec;
    }
    template <std::size_t... I>
    std::string fixed_of_json(int v, std::index_sequence<I...>)
    {
        std::string s = "[";
        ((s += (I ? "," : ""), s += std::to_string(vstate[v] ? fixed_count_of<I>(v) : 0)), ...);
        return s + "]";
    }

    template <std::size_t I>
    auto make_arg(int v, int tag, int salt, const std::vector<int>& vs)
    {
        using T = typename PL::template T<I>;
        constexpr int kind = PL::template kind<I>();
        if constexpr (kind == COUNT)
        {
            return static_cast<T>(vs[I + 1]);
        }
        else if constexpr (kind == PLAIN)
        {
            return salt < 0 ? VT<T>::make_digit(valc_of(tag, static_cast<int>(I) + 1))
                            : VT<T>::make(val_of(tag, salt, static_cast<int>(I) + 1, 1));
        }
        else
        {
            std::vector<T> r;
            const std::size_t n = kind == FIXED ? fixed_count_of<I>(v) : static_cast<std::size_t>(vs[I]);
            r.reserve(n);
            for (std::size_t j = 0; j < n; ++j)
                r.push_back(salt < 0 ? VT<T>::make_digit(valc_of(tag, static_cast<int>(I) + 1))
                                     : VT<T>::make(val_of(tag, salt, static_cast<int>(I) + 1, static_cast<int>(j) + 1)));
            return r;
        }
    }
    template <std::size_t... I>
    void emplace_twin(int v, int tag, const std::vector<int>& vs, std::index_sequence<I...>)
    {
        auto args = std::make_tuple(make_arg<I>(v, tag, -1, vs)...);
        std::apply([&](auto&... a) { TW(v).emplace_back(a...); }, args);
    }
    void make_twin(int v)
    {
        const std::size_t cap = last_construct[v][0], bud = last_construct[v][1];
        if constexpr (PL::all_plain)
            new (tstore[v]) Twin(cap);
        else if constexpr (PL::all_fixed)
            new (tstore[v]) Twin(cap, vfixed[v]);
        else if constexpr (PL::all_varying)
            new (tstore[v]) Twin(cap, bud);
        else
            new (tstore[v]) Twin(cap, bud, vfixed[v]);
        (void)bud;
        tstate[v] = 1;
    }

    template <std::size_t... I>
    void emplace(int v, Vec& vec, int tag, int salt, const std::vector<int>& vs, std::index_sequence<I...>)
    {
        auto args = std::make_tuple(make_arg<I>(v, tag, salt, vs)...);
        ledger().take_sub();  // building the arguments is not part of the operation
        std::apply([&](auto&... a) { vec.emplace_back(a...); }, args);
    }

    void construct(int v, std::size_t cap, std::size_t bud, int al, int variant = 0)
    {
        vfixed[v] = Cfg::fixed;
        if (variant == 1)
        {
            // the second FixedSize variant of the model (Cntgs!FxOf): the counts in reverse order when that differs,
            // else every count + 1
            auto rev = vfixed[v];
            std::reverse(rev.begin(), rev.end());
            if (rev != vfixed[v])
                vfixed[v] = rev;
            else
                for (auto& f : vfixed[v]) ++f;
        }
        construct_at(vstore[v], cap, bud, al, vfixed[v]);
    }

    static void construct_at(void* where, std::size_t cap, std::size_t bud, int al,
                             const std::array<std::size_t, PL::NFIXED>& fx)
    {
        VAlloc alloc(al);
        if constexpr (PL::all_plain)
        {
#ifdef VERIF_NO_PLAIN_ALLOC_CTOR
            (void)alloc;
            new (where) Vec(cap);
#else
            new (where) Vec(cap, alloc);
#endif
        }
        else if constexpr (PL::all_fixed)
        {
            new (where) Vec(cap, fx, alloc);
        }
        else if constexpr (PL::all_varying)
        {
            new (where) Vec(cap, bud, alloc);
        }
        else
        {
            new (where) Vec(cap, bud, fx, alloc);
        }
        (void)bud;
        (void)fx;
    }

    // ---------------------------------------------------------------- one operation
    // returns false when the history has to stop (plan infeasible on the observed state)
    bool run_op(const Op& op)
    {
        const int v = op.v;
        int ret = -1;
        long parcap = -1;
        int salt = 0;
        std::string itab = "[]";
        std::string cmp = "{\"n1\":-1}";
        long fresh = 0;
        bool want_fresh = false;
        bool thrown = false;
        std::string why;
        if (op.n != "EmplaceC" && op.n != "CmpAll" && op.n != "Construct")
            for (int q = 1; q <= NV; ++q)
            {
                drop_twin(q);
                as_constructed[q] = false;
            }
        ledger().take_sub();
        const int fault = pending_fault;
        pending_fault = 0;
        if (fault > 0) ledger().fail_countdown = fault;
        try
        {
            if (op.n == "Construct")
            {
                construct(v, static_cast<std::size_t>(op.a[0]), static_cast<std::size_t>(op.a[1]), op.a[2],
                          op.a.size() >= 4 ? op.a[3] : 0);
                vstate[v] = 1;
                last_construct[v][0] = static_cast<std::size_t>(op.a[0]);
                last_construct[v][1] = static_cast<std::size_t>(op.a[1]);
                as_constructed[v] = true;
            }
            else if (op.n == "DefaultConstruct")
            {
                new (vstore[v]) Vec();
                vstate[v] = 1;
                vfixed[v] = {};
            }
            else if (op.n == "Destroy")
            {
                V(v).~Vec();
                vstate[v] = 0;
            }
            else if (op.n == "Emplace")
            {
                if (!(V(v).size() < V(v).capacity())) why = "size()>=capacity()";
                else
                {
                    salt = ++salt_counter;
                    std::vector<int> vs(op.a.begin() + 1, op.a.end());
                    vs.push_back(0);
                    emplace(v, V(v), op.a[0], salt, vs, std::make_index_sequence<N>{});
                }
            }
#ifndef VERIF_NO_MUTATE
            else if (op.n == "PopBack")
            {
                V(v).pop_back();
            }
            else if (op.n == "Erase")
            {
                auto it = V(v).erase(V(v).begin() + op.a[0]);
                ret = static_cast<int>(it.index());
            }
            else if (op.n == "EraseRange")
            {
                auto it = V(v).erase(V(v).begin() + op.a[0], V(v).begin() + op.a[1]);
                ret = static_cast<int>(it.index());
            }
            else if (op.n == "Clear")
            {
                V(v).clear();
                if (vstate[v] == 2)
                {
                    // a cleared moved-from vector is an ordinary empty vector again; what it reports is logged
                    vstate[v] = 1;
                    parcap = static_cast<long>(V(v).capacity());
                    read_fixed_sizes(v, std::make_index_sequence<N>{});
                }
            }
#endif
            else if (op.n == "Reserve")
            {
                const bool grows = static_cast<std::size_t>(op.a[0]) > V(v).capacity();
                V(v).reserve(static_cast<std::size_t>(op.a[0]), static_cast<std::size_t>(op.a[1]));
                if (grows) want_fresh = true;
            }
#ifndef VERIF_NO_COPY
            else if (op.n == "CopyConstruct")
            {
                const Vec& src = V(op.a[0]);
                new (vstore[v]) Vec(src);
                vstate[v] = 1;
                vfixed[v] = vfixed[op.a[0]];
                parcap = static_cast<long>(V(v).capacity());
            }
            else if (op.n == "CopyAssign")
            {
                const Vec& src = V(op.a[0]);
                V(v) = src;
                vstate[v] = 1;
                vfixed[v] = vfixed[op.a[0]];
                parcap = static_cast<long>(V(v).capacity());
            }
#endif
#ifndef VERIF_NO_MUTATE
            else if (op.n == "MoveConstruct")
            {
                new (vstore[v]) Vec(std::move(V(op.a[0])));
                vstate[v] = 1;
                vfixed[v] = vfixed[op.a[0]];
                vstate[op.a[0]] = 2;
            }
            else if (op.n == "MoveAssign")
            {
                Vec& src = V(op.a[0]);
                V(v) = std::move(src);
                if (op.a[0] != v)
                {
                    vfixed[v] = vfixed[op.a[0]];
                    vstate[v] = 1;
                    vstate[op.a[0]] = 2;
                    parcap = static_cast<long>(V(v).capacity());
                }
            }
            else if (op.n == "Swap")
            {
                using std::swap;
                swap(V(v), V(op.a[0]));
                std::swap(vstate[v], vstate[op.a[0]]);
                std::swap(vfixed[v], vfixed[op.a[0]]);
            }
#endif
#ifndef VERIF_NO_REF_OPS
            else if (op.n == "RefAssign")
            {
                const Vec& src = V(op.a[1]);
                V(v)[static_cast<std::size_t>(op.a[0])] = src[static_cast<std::size_t>(op.a[2])];
            }
            else if (op.n == "RefAssignLv")
            {
                typename Vec::reference named = V(op.a[1])[static_cast<std::size_t>(op.a[2])];
                V(v)[static_cast<std::size_t>(op.a[0])] = named;
            }
            else if (op.n == "RefMoveAssign")
            {
                V(v)[static_cast<std::size_t>(op.a[0])] = V(op.a[1])[static_cast<std::size_t>(op.a[2])];
            }
            else if (op.n == "RefSwap")
            {
                using std::swap;
                swap(V(v)[static_cast<std::size_t>(op.a[0])], V(op.a[1])[static_cast<std::size_t>(op.a[2])]);
            }
            else if (op.n == "IterSwap")
            {
                std::iter_swap(V(v).begin() + op.a[0], V(op.a[1]).begin() + op.a[2]);
            }
            else if (op.n == "Rotate")
            {
                auto b = V(v).begin();
                std::rotate(b + op.a[0], b + op.a[1], b + op.a[2]);
            }
            else if (op.n == "Reverse")
            {
                auto b = V(v).begin();
                std::reverse(b + op.a[0], b + op.a[1]);
            }
            else if (op.n == "SwapRanges")
            {
                auto b = V(v).begin();
                std::swap_ranges(b + op.a[0], b + op.a[1], V(op.a[2]).begin() + op.a[3]);
            }
#endif
            else if (op.n == "EmplaceC")
            {
                if (!(V(v).size() < V(v).capacity())) why = "size()>=capacity()";
                else
                {
                    std::vector<int> vs(op.a.begin() + 1, op.a.end());
                    vs.push_back(0);
#ifndef VERIF_NO_CMP
                    if (V(v).size() == 0 && !tstate[v] && as_constructed[v]) make_twin(v);
                    if (tstate[v] && TW(v).size() == V(v).size()) emplace_twin(v, op.a[0], vs, std::make_index_sequence<N>{});
                    ledger().take_sub();
#endif
                    emplace(v, V(v), op.a[0], -1, vs, std::make_index_sequence<N>{});
                }
            }
#ifndef VERIF_NO_CMP
            else if (op.n == "CmpAll")
            {
                cmp = cmp_all(V(v), V(op.a[0]), (tstate[op.a[0]] && TW(op.a[0]).size() == V(op.a[0]).size()) ? &TW(op.a[0]) : nullptr,
                              (tstate[v] && TW(v).size() == V(v).size()) ? &TW(v) : nullptr);
            }
#endif
            else if (op.n == "WriteItem")
            {
                write_item(V(v), static_cast<std::size_t>(op.a[0]), op.a[1], op.a[2], op.a[3], op.a[4],
                           std::make_index_sequence<N>{});
            }
            else if (op.n == "IterProbe")
            {
                itab = iter_table(V(v));
#ifndef VERIF_NO_API
                if (V(v).size() > 0)
                {
                    (void)api_surface(V(v));   // temporaries only: nothing the vector holds changes
                    ledger().take_sub();       // the temporaries' allocations are balanced; not part of the probe
                }
#endif
            }
#ifndef VERIF_NO_ELEM
            else if (op.n == "ElemFromRef")
            {
                const Vec& c = V(op.a[0]);
                new (estore[v]) Elem(c[static_cast<std::size_t>(op.a[1])], VAlloc(op.a[2]));
                estate[v] = 1;
            }
            else if (op.n == "ElemFromLvRef")
            {
                typename Vec::reference named = V(op.a[0])[static_cast<std::size_t>(op.a[1])];
                new (estore[v]) Elem(named, VAlloc(op.a[2]));
                estate[v] = 1;
            }
            else if (op.n == "ElemFromRvRef")
            {
                new (estore[v]) Elem(V(op.a[0])[static_cast<std::size_t>(op.a[1])], VAlloc(op.a[2]));
                estate[v] = 1;
            }
            else if (op.n == "ElemCopy")
            {
                const Elem& src = E(op.a[0]);
                new (estore[v]) Elem(src);
                estate[v] = 1;
            }
            else if (op.n == "ElemMove")
            {
                new (estore[v]) Elem(std::move(E(op.a[0])));
                estate[v] = 1;
                estate[op.a[0]] = 2;
            }
            else if (op.n == "ElemCopyAlloc")
            {
                const Elem& src = E(op.a[0]);
                new (estore[v]) Elem(src, VAlloc(op.a[1]));
                estate[v] = 1;
            }
            else if (op.n == "ElemMoveAlloc")
            {
                const bool eq = VAlloc(op.a[1]) == E(op.a[0]).get_allocator();
                new (estore[v]) Elem(std::move(E(op.a[0])), VAlloc(op.a[1]));
                estate[v] = 1;
                if (eq) estate[op.a[0]] = 2;
            }
            else if (op.n == "ElemCopyAssign")
            {
                const Elem& src = E(op.a[0]);
                E(v) = src;
                estate[v] = 1;
            }
            else if (op.n == "ElemMoveAssign")
            {
                Elem& src = E(op.a[0]);
                const bool steals = Cfg::Kind::ae || Cfg::Kind::pocma || E(v).get_allocator() == src.get_allocator();
                E(v) = std::move(src);
                if (op.a[0] != v)
                {
                    estate[v] = 1;
                    if (steals) estate[op.a[0]] = 2;
                }
            }
            else if (op.n == "ElemSwap")
            {
                using std::swap;
                swap(E(v), E(op.a[0]));
                std::swap(estate[v], estate[op.a[0]]);
            }
#ifndef VERIF_NO_ELEM_ASSIGN_REF
            else if (op.n == "ElemAssignFromRef")
            {
                const Vec& c = V(op.a[0]);
                E(v) = c[static_cast<std::size_t>(op.a[1])];
            }
            else if (op.n == "ElemAssignFromLvRef")
            {
                typename Vec::reference named = V(op.a[0])[static_cast<std::size_t>(op.a[1])];
                E(v) = named;
            }
            else if (op.n == "ElemAssignFromRvRef")
            {
                E(v) = V(op.a[0])[static_cast<std::size_t>(op.a[1])];
            }
#endif
#ifndef VERIF_NO_REF_ASSIGN_ELEM
            else if (op.n == "RefAssignFromElem")
            {
                const Elem& src = E(op.a[1]);
                V(v)[static_cast<std::size_t>(op.a[0])] = src;
            }
            else if (op.n == "RefAssignFromRvElem")
            {
                V(v)[static_cast<std::size_t>(op.a[0])] = std::move(E(op.a[1]));
            }
#endif
            else if (op.n == "ElemDestroy")
            {
                E(v).~Elem();
                estate[v] = 0;
            }
#endif
            else
            {
                why = "unknown-op";
            }
        }
        catch (const std::bad_alloc&)
        {
            thrown = true;
            // operands of a failed assignment are valid but unspecified: from now on only their scalars are projected
            if (op.n == "CopyAssign" || op.n == "MoveAssign")
            {
                if (op.a[0] != v)
                {
                    vstate[v] = 2;
                    if (op.n == "MoveAssign") vstate[op.a[0]] = 2;
                }
            }
            else if (op.n == "ElemCopyAssign" || op.n == "ElemMoveAssign")
            {
                if (op.a[0] != v)
                {
                    estate[v] = 2;
                    if (op.n == "ElemMoveAssign") estate[op.a[0]] = 2;
                }
            }
        }
        ledger().fail_countdown = -1;
        if (!why.empty())
        {
            out->line("{\"e\":\"skip\",\"h\":" + std::to_string(h) + ",\"s\":" + std::to_string(step) + ",\"n\":\"" +
                      op.n + "\",\"why\":\"" + why + "\"}");
            return false;
        }
        std::string sub = ledger().take_sub();
        ledger().check_all_canaries();
        if (want_fresh && !thrown)
        {
            // what a freshly constructed vector with the same capacity and payload budget consumes (C05), observed
            alignas(Vec) unsigned char tmp[sizeof(Vec)];
            construct_at(tmp, static_cast<std::size_t>(op.a[0]), static_cast<std::size_t>(op.a[1]),
                         V(v).get_allocator().inst, vfixed[v]);
            Vec* t = std::launder(reinterpret_cast<Vec*>(tmp));
            fresh = static_cast<long>(t->memory_consumption());
            t->~Vec();
            ledger().take_sub();
        }
        cell_pool().begin_pass();   // one observation pass: the same pool cell must not be reached from two addresses
        std::ostringstream o;
        o << "{\"e\":\"op\",\"h\":" << h << ",\"s\":" << step << ",\"n\":\"" << op.n << "\",\"v\":" << v << ",\"a\":[";
        for (std::size_t i = 0; i < op.a.size(); ++i) o << (i ? "," : "") << op.a[i];
        o << "],\"par\":{\"salt\":" << salt << ",\"cap\":" << parcap << ",\"fresh\":" << fresh << ",\"fault\":" << fault << ",\"thrown\":" << (thrown ? 1 : 0)
          << ",\"fx\":" << ((v >= 1 && v <= NV && op.n == "Clear") ? fixed_of_json(v, std::make_index_sequence<N>{}) : std::string("[]")) << "},\"thrown\":" << (thrown ? 1 : 0)
          << ",\"ret\":" << ret << ",\"canary\":" << (ledger().canary_dead ? 1 : 0) << ",\"sub\":[" << sub
          << "],\"itab\":" << itab << ",\"cmp\":" << cmp << ",\"obs\":" << all_obs() << ",\"eobs\":" << all_el_obs() << "}";
        ledger().take_sub();  // projection must not produce events; drop defensively
        out->line(o.str());
        for (int q = 1; q <= NV; ++q)
            if (vstate[q] == 1) last_cap[q] = V(q).capacity();
        return true;
    }

    void finish()
    {
        for (int q = 1; q <= NV; ++q) drop_twin(q);
        ledger().take_sub();
#ifndef VERIF_NO_ELEM
        for (int x = 1; x <= NE; ++x)
        {
            if (estate[x])
            {
                E(x).~Elem();
                estate[x] = 0;
            }
        }
#endif
        for (int v = 1; v <= NV; ++v)
        {
            if (vstate[v])
            {
                V(v).~Vec();
                vstate[v] = 0;
            }
        }
        std::string sub = ledger().take_sub();
        std::ostringstream o;
        o << "{\"e\":\"end\",\"h\":" << h << ",\"sub\":[" << sub << "],\"live\":[";
        bool first = true;
        for (const auto& b : ledger().blocks)
        {
            if (!b.live) continue;
            o << (first ? "" : ",") << "[" << b.id << "," << b.inst << "," << b.bytes << "]";
            first = false;
        }
        o << "],\"objs\":[";
        first = true;
        for (const auto& kv : registry().live)
        {
            Loc l = ledger().locate(reinterpret_cast<const void*>(kv.first));
            o << (first ? "" : ",") << "[" << l.blk << "," << l.off << "]";
            first = false;
        }
        o << "]}";
        out->line(o.str());
    }

    void run_history(const History& hist, Progress* prog, unsigned seed, int junkmode)
    {
        h = hist.h;
        step = 0;
        salt_counter = 0;
        pending_fault = 0;
        for (int v = 0; v <= NV; ++v) vstate[v] = 0;
        for (int x = 0; x <= NE; ++x) estate[x] = 0;
        for (int q = 0; q <= NV; ++q) tstate[q] = 0;
        const unsigned junk = junkmode >= 0 ? static_cast<unsigned>(junkmode) : (seed + static_cast<unsigned>(h)) % 4;
        ledger().init(seed + static_cast<unsigned>(h), junk);
        registry().reset();
        out->line("{\"e\":\"begin\",\"h\":" + std::to_string(h) + ",\"junk\":" + std::to_string(junk) + "}");
        if (hist.random_len > 0)
        {
            random_history(hist, prog);
            finish_history(prog);
            return;
        }
        for (const auto& op : hist.ops)
        {
            if (op.n == "Fail")
            {
                pending_fault = op.v;
                continue;
            }
            ++step;
            prog->step = step;
            prog->v = op.v;
            prog->na = static_cast<long>(op.a.size() > 8 ? 8 : op.a.size());
            for (long q = 0; q < prog->na; ++q) prog->a[q] = op.a[static_cast<std::size_t>(q)];
            std::strncpy(prog->opname, op.n.c_str(), sizeof(prog->opname) - 1);
            if (!run_op(op)) break;
        }
        finish_history(prog);
    }

    void finish_history(Progress* prog)
    {
        prog->step = step + 1;
        prog->v = 0;
        prog->na = 0;
        std::strncpy(prog->opname, "finish", sizeof(prog->opname) - 1);
        finish();
    }

    // ---------------------------------------------------------------- histories drawn by the driver itself
    // Independent of the TLA+ generator: operations are drawn from what the public interface shows (size(),
    // capacity(), get_allocator()) and from the documented preconditions only (size() < capacity(); payload within the
    // declared budget - the driver remembers the budget it declared and the payload it emplaced).  The recorded
    // trace is validated by Trace.tla like every other one, so a blind spot shared by generator and oracle would show.
    struct RandomBook
    {
        std::size_t budget = 0;
        std::vector<std::size_t> payload;  // per element
        std::size_t total() const
        {
            std::size_t s = 0;
            for (auto x : payload) s += x;
            return s;
        }
    };

    template <std::size_t... I>
    static std::size_t payload_of(const std::vector<int>& vs, std::index_sequence<I...>)
    {
        std::size_t s = 0;
        ((s += (PL::template Info<I>::kind == VARYING ? static_cast<std::size_t>(vs[I]) * sizeof(typename PL::template T<I>) : 0)),
         ...);
        return s;
    }
    template <std::size_t... I>
    static std::size_t payload_unit(std::index_sequence<I...>)
    {
        std::size_t s = 0;
        ((s += (PL::template Info<I>::kind == VARYING ? sizeof(typename PL::template T<I>) : 0)), ...);
        return s;
    }

    void random_history(const History& hist, Progress* prog)
    {
        unsigned x = hist.random_seed * 2654435761u + 97u;
        auto rnd = [&](unsigned n) {
            x = x * 1664525u + 1013904223u;
            return n ? (x >> 10) % n : 0u;
        };
        RandomBook book[NV + 1];
        const auto seq = std::make_index_sequence<N>{};
        const std::size_t unit = payload_unit(seq);
        int tag = 0;
        for (int it = 0; it < hist.random_len; ++it)
        {
            const int v = 1 + static_cast<int>(rnd(2));
            const int w = 3 - v;
            Op op;
            op.v = v;
            if (vstate[v] == 0)
            {
                const unsigned c = rnd(10);
                if (c == 0)
                {
                    op.n = "DefaultConstruct";
                    book[v] = RandomBook{};
                }
                else if (c < 3 && vstate[w] == 1)
                {
                    op.n = c == 1 ? "CopyConstruct" : "MoveConstruct";
                    op.a = {w};
                }
                else
                {
                    op.n = "Construct";
                    const int cap = static_cast<int>(rnd(5));
                    const int bud = static_cast<int>(unit * rnd(7));
                    op.a = {cap, bud, Cfg::Kind::ae ? 1 : v};
                    book[v] = RandomBook{};
                    book[v].budget = unit ? static_cast<std::size_t>(bud) : 0;
                }
            }
            else if (vstate[v] == 2)
            {
                const unsigned c = rnd(4);
                if (c == 0) op.n = "Clear";
                else if (c == 1) op.n = "Destroy";
                else if (vstate[w] == 1)
                {
                    op.n = c == 2 ? "CopyAssign" : "MoveAssign";
                    op.a = {w};
                }
                else op.n = "Destroy";
            }
            else
            {
                const std::size_t size = V(v).size(), cap = V(v).capacity();
                const unsigned c = rnd(16);
                if (c < 6 && size < cap)
                {
                    std::vector<int> vs(N, 0);
                    for (std::size_t k = 0; k < N; ++k) vs[k] = static_cast<int>(rnd(4));
                    zero_non_varying(vs, seq);
                    while (book[v].total() + payload_of(vs, seq) > book[v].budget)
                    {
                        bool any = false;
                        for (auto& q : vs)
                            if (q > 0)
                            {
                                --q;
                                any = true;
                                break;
                            }
                        if (!any) break;
                    }
                    if (book[v].total() + payload_of(vs, seq) > book[v].budget) continue;
                    op.n = "Emplace";
                    op.a = {1 + (++tag % 30)};
                    op.a.insert(op.a.end(), vs.begin(), vs.end());
                }
                else if (c == 6 && size > 0) op.n = "PopBack";
                else if (c == 7 && size > 0)
                {
                    op.n = "Erase";
                    op.a = {static_cast<int>(rnd(static_cast<unsigned>(size)))};
                }
                else if (c == 8)
                {
                    const int i = static_cast<int>(rnd(static_cast<unsigned>(size) + 1));
                    const int j = i + static_cast<int>(rnd(static_cast<unsigned>(size) - static_cast<unsigned>(i) + 1));
                    op.n = "EraseRange";
                    op.a = {i, j};
                }
                else if (c == 9) op.n = "Clear";
                else if (c == 10 || c == 11)
                {
                    op.n = "Reserve";
                    // never more elements than the projection reports (MAXPROJ): the access paths would project
                    // different parts of a larger vector
                    const unsigned nmax = static_cast<unsigned>(cap) + 3 > MAXPROJ + 1 ? static_cast<unsigned>(MAXPROJ) + 1
                                                                                        : static_cast<unsigned>(cap) + 3;
                    const int n = static_cast<int>(rnd(nmax));
                    const int b = static_cast<int>(book[v].total() + unit * rnd(5));
                    op.a = {n, b};
                }
                else if (c == 12 && vstate[w] == 1)
                {
                    op.n = "CopyAssign";
                    op.a = {w};
                }
                else if (c == 13 && vstate[w] == 1)
                {
                    op.n = "MoveAssign";
                    op.a = {w};
                }
                else if (c == 14 && vstate[w] != 0 &&
                         (Cfg::Kind::pocs || V(v).get_allocator() == V(w).get_allocator()))
                {
                    op.n = "Swap";
                    op.a = {w};
                }
                else if (c == 15 && rnd(4) == 0) op.n = "Destroy";
                else continue;
            }
            // bookkeeping of budget / payload (documented preconditions only)
            const std::size_t cap_before = vstate[v] == 1 ? V(v).capacity() : 0;
            ++step;
            prog->step = step;
            prog->v = op.v;
            prog->na = static_cast<long>(op.a.size() > 8 ? 8 : op.a.size());
            for (long q = 0; q < prog->na; ++q) prog->a[q] = op.a[static_cast<std::size_t>(q)];
            std::strncpy(prog->opname, op.n.c_str(), sizeof(prog->opname) - 1);
            if (!run_op(op)) break;
            if (op.n == "Emplace")
            {
                std::vector<int> vs(op.a.begin() + 1, op.a.end());
                book[v].payload.push_back(payload_of(vs, seq));
            }
            else if (op.n == "PopBack") book[v].payload.pop_back();
            else if (op.n == "Erase") book[v].payload.erase(book[v].payload.begin() + op.a[0]);
            else if (op.n == "EraseRange")
                book[v].payload.erase(book[v].payload.begin() + op.a[0], book[v].payload.begin() + op.a[1]);
            else if (op.n == "Clear") book[v].payload.clear();
            else if (op.n == "Reserve")
            {
                if (static_cast<std::size_t>(op.a[0]) > cap_before) book[v].budget = unit ? static_cast<std::size_t>(op.a[1]) : 0;
            }
            else if (op.n == "CopyConstruct" || op.n == "CopyAssign" || op.n == "MoveAssign" || op.n == "MoveConstruct")
            {
                if (op.a[0] != v)
                {
                    const bool same_cap = V(v).capacity() == book_cap(w, op.n);
                    book[v].payload = book[w].payload;
                    book[v].budget = same_cap ? book[w].budget : book[w].total();
                    if (op.n == "MoveAssign" || op.n == "MoveConstruct") book[w] = RandomBook{};
                }
            }
            else if (op.n == "Swap") std::swap(book[v], book[w]);
        }
    }

    // capacity of the source of a copy/move as the driver last observed it
    std::size_t last_cap[NV + 1] = {0, 0, 0, 0};
    std::size_t book_cap(int w, const std::string& n)
    {
        if (n == "CopyConstruct" || n == "CopyAssign") return V(w).capacity();
        return last_cap[w];
    }

    template <std::size_t... I>
    static void zero_non_varying(std::vector<int>& vs, std::index_sequence<I...>)
    {
        ((vs[I] = PL::template Info<I>::kind == VARYING ? vs[I] : 0), ...);
    }
};

// ---- plan file: lines "H <id>", "O <name> <v> <args...>", "E" --------------------------------------------------
inline std::vector<History> read_plan(const char* path)
{
    std::vector<History> r;
    std::ifstream in(path);
    if (!in)
    {
        fprintf(stderr, "VERIF-INFRA: cannot read plan %s\n", path);
        _exit(3);
    }
    std::string line;
    History cur;
    while (std::getline(in, line))
    {
        if (line.empty()) continue;
        std::istringstream is(line);
        char c;
        is >> c;
        if (c == 'H')
        {
            cur = History{};
            is >> cur.h;
        }
        else if (c == 'O')
        {
            Op op;
            is >> op.n >> op.v;
            int x;
            while (is >> x) op.a.push_back(x);
            cur.ops.push_back(op);
        }
        else if (c == 'R')
        {
            is >> cur.random_len >> cur.random_seed;
        }
        else if (c == 'E')
        {
            r.push_back(cur);
        }
    }
    return r;
}

inline std::string json_escape(const std::string& s)
{
    std::string o;
    for (char c : s)
    {
        if (c == '"' || c == '\\')
        {
            o += '\\';
            o += c;
        }
        else if (static_cast<unsigned char>(c) < 0x20)
            o += ' ';
        else
            o += c;
    }
    return o;
}

inline std::string classify_stderr(const std::string& path, int status)
{
    std::ifstream in(path);
    std::string line, kind, msg;
    while (std::getline(in, line))
    {
        if (line.find("ERROR: AddressSanitizer") != std::string::npos)
        {
            auto p = line.find("AddressSanitizer:");
            std::istringstream is(line.substr(p + 17));
            std::string w;
            is >> w;
            kind = "ASAN:" + w;
            msg = line;
            break;
        }
        if (line.find("runtime error:") != std::string::npos)
        {
            kind = "UBSAN";
            msg = line;
            break;
        }
        if (line.find("Assertion") != std::string::npos)
        {
            kind = "ASSERT";
            msg = line;
            break;
        }
        if (line.find("terminate called") != std::string::npos)
        {
            kind = "TERMINATE";
            msg = line;
            break;
        }
        if (line.find("VERIF-API") != std::string::npos)
        {
            kind = "API_MISMATCH";
            msg = line;
            break;
        }
        if (line.find("VERIF-RUNAWAY") != std::string::npos)
        {
            kind = "RUNAWAY";
            msg = line;
            break;
        }
        if (line.find("VERIF-HUGE") != std::string::npos)
        {
            kind = "ALLOC_HUGE";
            msg = line;
            break;
        }
        if (line.find("VERIF-INFRA") != std::string::npos)
        {
            kind = "INFRA";
            msg = line;
            break;
        }
    }
    if (kind.empty())
    {
        if (WIFSIGNALED(status))
        {
            int sig = WTERMSIG(status);
            kind = sig == SIGSEGV ? "SIGSEGV" : sig == SIGALRM ? "TIMEOUT" : sig == SIGBUS ? "SIGBUS"
                   : sig == SIGABRT ? "SIGABRT" : sig == SIGFPE ? "SIGFPE" : ("SIG" + std::to_string(sig));
        }
        else
            kind = "EXIT" + std::to_string(WEXITSTATUS(status));
    }
    if (msg.size() > 300) msg.resize(300);
    return "\"kind\":\"" + kind + "\",\"msg\":\"" + json_escape(msg) + "\"";
}

// usage: driver <plan> <trace-out> <seed> <junkmode(-1=rotate)> <build-name>
template <class Cfg>
int driver_main(int argc, char** argv)
{
    if (argc < 6)
    {
        fprintf(stderr, "usage: %s plan out seed junk build\n", argv[0]);
        return 3;
    }
    const unsigned seed = static_cast<unsigned>(std::strtoul(argv[3], nullptr, 10));
    const int junkmode = std::atoi(argv[4]);
    std::vector<History> plan = read_plan(argv[1]);
    int fd = ::open(argv[2], O_WRONLY | O_CREAT | O_TRUNC | O_APPEND, 0644);
    if (fd < 0)
    {
        perror("open out");
        return 3;
    }
    Out out{fd};
    out.line(Driver<Cfg>::cfg_json(seed, argv[5]));
    auto* prog = static_cast<Progress*>(
        mmap(nullptr, sizeof(Progress), PROT_READ | PROT_WRITE, MAP_SHARED | MAP_ANONYMOUS, -1, 0));
    std::string errpath = std::string(argv[2]) + ".stderr";
    std::size_t next = 0;
    long crashes = 0;
    while (next < plan.size())
    {
        prog->hist_index = static_cast<long>(next);
        prog->step = 0;
        prog->h = plan[next].h;
        prog->opname[0] = 0;
        pid_t pid = fork();
        if (pid < 0)
        {
            perror("fork");
            return 3;
        }
        if (pid == 0)
        {
            int efd = ::open(errpath.c_str(), O_WRONLY | O_CREAT | O_TRUNC, 0644);
            if (efd >= 0)
            {
                dup2(efd, 2);
                close(efd);
            }
            static Driver<Cfg> drv;
            drv.out = &out;
            for (std::size_t i = next; i < plan.size(); ++i)
            {
                prog->hist_index = static_cast<long>(i);
                prog->h = plan[i].h;
                prog->step = 0;
                alarm(20);
                drv.run_history(plan[i], prog, seed, junkmode);
            }
            _exit(0);
        }
        int status = 0;
        waitpid(pid, &status, 0);
        if (WIFEXITED(status) && WEXITSTATUS(status) == 0)
        {
            next = plan.size();
        }
        else
        {
            std::string cls = classify_stderr(errpath, status);
            if (cls.find("\"INFRA\"") != std::string::npos || (WIFEXITED(status) && WEXITSTATUS(status) >= 3 &&
                                                                 WEXITSTATUS(status) <= 4))
            {
                fprintf(stderr, "VERIF-INFRA: driver child failed: %s\n", cls.c_str());
                return 3;
            }
            ++crashes;
            out.line("{\"e\":\"crash\",\"h\":" + std::to_string(prog->h) + ",\"s\":" + std::to_string(prog->step) +
                     ",\"n\":\"" + std::string(prog->opname) + "\",\"v\":" + std::to_string(prog->v) + ",\"a\":[" + [&] {
                         std::string as;
                         for (long q = 0; q < prog->na; ++q) as += (q ? "," : "") + std::to_string(prog->a[q]);
                         return as;
                     }() + "]," + cls + "}");
            next = static_cast<std::size_t>(prog->hist_index) + 1;
        }
    }
    if (!std::getenv("VERIF_KEEP_STDERR")) ::unlink(errpath.c_str());
    close(fd);
    fprintf(stderr, "driver %s: %zu histories, %ld crashed\n", Cfg::id, plan.size(), crashes);
    return 0;
}
}  // namespace verif

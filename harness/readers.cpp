// C19 driver: const operations on a shared vector / element from several threads.
//   readers prot <type> <out>                 every operation once with the shared state mprotect()ed read-only
//   readers sched <type> <schedules> <out>    TLC-enumerated interleavings (spec/Readers.tla) on real threads, turn-taking
//                                             by relaxed atomics; build with -fsanitize=thread
//   readers free <type> <threads> <rounds> <out>   free-running threads
// Records results; spec/Readers.tla judges.
#include <cntgs/contiguous.hpp>

#include <fcntl.h>
#include <signal.h>
#include <sys/mman.h>
#include <unistd.h>

#include <atomic>
#include <cstdint>
#include <cstdio>
#include <cstdlib>
#include <cstring>
#include <fstream>
#include <sstream>
#include <string>
#include <thread>
#include <vector>

namespace rd
{
constexpr std::size_t SHARED_BYTES = 1u << 20;
constexpr std::size_t LOCAL_BYTES = 64u << 20;
unsigned char* g_shared = nullptr;
unsigned char* g_local = nullptr;
std::size_t g_shared_bump = 0;
std::atomic<std::size_t> g_local_bump{0};
std::atomic<int> g_setup{1};

template <class T>
struct ArenaAlloc
{
    using value_type = T;
    ArenaAlloc() = default;
    template <class U>
    ArenaAlloc(const ArenaAlloc<U>&) noexcept
    {
    }
    T* allocate(std::size_t n)
    {
        const std::size_t bytes = n * sizeof(T) + alignof(T);
        if (g_setup.load(std::memory_order_relaxed))
        {
            std::size_t at = (g_shared_bump + alignof(T) - 1) / alignof(T) * alignof(T);
            g_shared_bump = at + n * sizeof(T);
            if (g_shared_bump > SHARED_BYTES) std::abort();
            return reinterpret_cast<T*>(g_shared + at);
        }
        std::size_t at = g_local_bump.fetch_add(bytes + 64, std::memory_order_relaxed);
        if (at + bytes + 64 > LOCAL_BYTES) std::abort();
        std::uintptr_t p = reinterpret_cast<std::uintptr_t>(g_local + at);
        p = (p + alignof(T) - 1) / alignof(T) * alignof(T);
        return reinterpret_cast<T*>(p);
    }
    void deallocate(T*, std::size_t) noexcept {}
    template <class U>
    bool operator==(const ArenaAlloc<U>&) const noexcept
    {
        return true;
    }
    template <class U>
    bool operator!=(const ArenaAlloc<U>&) const noexcept
    {
        return false;
    }
};

template <class... P>
using Vec = cntgs::BasicContiguousVector<cntgs::Options<cntgs::Allocator<ArenaAlloc<std::byte>>>, P...>;

// ---- the three shared vector types --------------------------------------------------------------------------------
struct TFixed
{
    using V = Vec<cntgs::FixedSize<std::uint16_t>, std::uint32_t>;
    static void build(void* where, int n, int bump = 0)
    {
        auto* v = new (where) V(static_cast<std::size_t>(n + 1), {3});
        for (int i = 0; i < n; ++i)
            v->emplace_back(std::array<std::uint16_t, 3>{1, 2, 3}, static_cast<std::uint32_t>(10 + i + (i == n - 1 ? bump : 0)));
    }
    template <class R>
    static int key(const R& r)
    {
        return static_cast<int>(cntgs::get<1>(r));
    }
};
struct TVarying
{
    using V = Vec<std::uint32_t, cntgs::VaryingSize<std::uint16_t>, std::uint8_t>;
    static void build(void* where, int n, int bump = 0)
    {
        auto* v = new (where) V(static_cast<std::size_t>(n + 1), 64);
        for (int i = 0; i < n; ++i)
            v->emplace_back(static_cast<std::uint32_t>(i % 3), std::vector<std::uint16_t>(static_cast<std::size_t>(i % 3), 7),
                            static_cast<std::uint8_t>(10 + i + (i == n - 1 ? bump : 0)));
    }
    template <class R>
    static int key(const R& r)
    {
        return static_cast<int>(cntgs::get<2>(r));
    }
};
struct TString
{
    using V = Vec<std::uint32_t, cntgs::VaryingSize<std::string>, std::string>;
    static std::string s(int i) { return "a string long enough to live on the heap #" + std::to_string(i); }
    static void build(void* where, int n, int bump = 0)
    {
        auto* v = new (where) V(static_cast<std::size_t>(n + 1), 8 * sizeof(std::string));
        for (int i = 0; i < n; ++i)
            v->emplace_back(static_cast<std::uint32_t>(i % 2), std::vector<std::string>(static_cast<std::size_t>(i % 2), s(i)),
                            s(10 + i + (i == n - 1 ? bump : 0)));
    }
    template <class R>
    static int key(const R& r)
    {
        const std::string& x = cntgs::get<2>(r);
        return std::atoi(x.c_str() + x.rfind('#') + 1);
    }
};

constexpr int NELEM = 3;
const char* OPS[] = {"size", "index", "iterate", "equal", "less", "copy", "elem", "data"};

template <class T>
struct Shared
{
    using V = typename T::V;
    using E = typename V::value_type;
    const V* vec = nullptr;
    const V* other = nullptr;   // a second shared const vector: same size, differs from *vec in its LAST element only
    const E* elem = nullptr;

    void setup()
    {
        void* vwhere = g_shared;
        g_shared_bump = (sizeof(V) + 63) / 64 * 64;
        T::build(vwhere, NELEM);
        vec = static_cast<const V*>(vwhere);
        void* ewhere = g_shared + (g_shared_bump + 63) / 64 * 64;
        g_shared_bump = (g_shared_bump + 63) / 64 * 64 + (sizeof(E) + 63) / 64 * 64;
        elem = new (ewhere) E((*vec)[0]);
        void* owhere = g_shared + (g_shared_bump + 63) / 64 * 64;
        g_shared_bump = (g_shared_bump + 63) / 64 * 64 + (sizeof(V) + 63) / 64 * 64;
        T::build(owhere, NELEM, 1);
        other = static_cast<const V*>(owhere);
        g_setup.store(0, std::memory_order_relaxed);
    }

    int run(const std::string& op, int arg) const
    {
        const V& v = *vec;
        const std::size_t n = v.size();
        if (op == "size") return static_cast<int>(n);
        if (op == "data")
        {
            // everything a const vector answers about itself: pointers, capacity, footprint, fixed sizes, allocator,
            // const iterator arithmetic and comparison (each term is 0 when the answer is right)
            int extra = 0;
            if constexpr (std::is_same_v<T, TFixed>) extra += v.template get_fixed_size<0>() == 3 ? 0 : 400;
            const auto b = v.cbegin();
            const auto e = v.cend();
            extra += (static_cast<std::size_t>(e - b) == n ? 0 : 200) + ((b + static_cast<std::ptrdiff_t>(n - 1))[0] == v.back() ? 0 : 300) +
                     (b < e && !(e < b) && b + static_cast<std::ptrdiff_t>(n) == e ? 0 : 500) +
                     (v.get_allocator() == elem->get_allocator() ? 0 : 600);
            return (v.data_end() > v.data_begin() ? 1 : 0) + static_cast<int>(n) - 1 + (v.capacity() >= n ? 0 : 100) +
                   (v.empty() ? 50 : 0) + (v.memory_consumption() > 0 ? 0 : 70) + extra;
        }
        if (op == "index")
        {
            const std::size_t i = static_cast<std::size_t>(arg) % n;
            const auto r = v[i];
            return T::key(r) + (v.back() == v[n - 1] && v.front() == v[0] ? 0 : 1000) + (T::key(v.begin()[static_cast<std::ptrdiff_t>(i)]) == T::key(r) ? 0 : 2000) +
                   (r.data_end() >= r.data_begin() && r.size_in_bytes() == static_cast<std::size_t>(r.data_end() - r.data_begin()) ? 0 : 4000);
        }
        if (op == "iterate")
        {
            int s = 0;
            for (auto it = v.begin(); it != v.end(); ++it) s += T::key(*it);
            return s;
        }
        // comparisons also against the OTHER shared vector (equal size, first difference at the last element): the
        // element-wise paths run to the end, both operands are shared and const
        const V& w = *other;
        if (op == "equal")
            return (v == v && !(v != v) && *elem == v[0] && v.front() == v[0] && !(v == w) && w != v && w == w) ? 1 : 0;
        if (op == "less")
            return (v < v || *elem < v[0] || v[0] < *elem || (v < w) == (w <= v) || (w < v) == (v <= w)) ? 1 : 0;
        if (op == "copy")
        {
            V c(v);  // thread-local copy: distinct vectors never interfere, even when copied from one another
            int s = 0;
            for (auto&& r : c) s += T::key(r);
            c.pop_back();
            c.clear();
            return s;
        }
        if (op == "elem")
        {
            E e(v[static_cast<std::size_t>(arg) % n]);
            typename V::const_reference r(e);
            return T::key(r) + (e == v[static_cast<std::size_t>(arg) % n] ? 0 : 1000);
        }
        return -1;
    }

    std::string setup_json() const
    {
        std::ostringstream o;
        o << "{\"e\":\"setup\",\"size\":" << vec->size() << ",\"cap\":" << vec->capacity() << ",\"first\":[";
        for (std::size_t i = 0; i < vec->size(); ++i) o << (i ? "," : "") << T::key((*vec)[i]);
        o << "]}";
        return o.str();
    }
};

struct Out
{
    int fd;
    void line(const std::string& s)
    {
        std::string t = s + "\n";
        if (::write(fd, t.data(), t.size()) < 0) _exit(4);
    }
};

// ---- prot mode -------------------------------------------------------------------------------------------------------
volatile sig_atomic_t g_wrote = 0;
void on_segv(int, siginfo_t* si, void*)
{
    auto* p = static_cast<unsigned char*>(si->si_addr);
    if (p >= g_shared && p < g_shared + SHARED_BYTES)
    {
        g_wrote = 1;
        mprotect(g_shared, SHARED_BYTES, PROT_READ | PROT_WRITE);  // let the write go through, it has been recorded
        return;
    }
    _exit(5);
}

template <class T>
int run_prot(Out& out)
{
    Shared<T> sh;
    sh.setup();
    out.line(sh.setup_json());
    struct sigaction sa;
    std::memset(&sa, 0, sizeof sa);
    sa.sa_sigaction = on_segv;
    sa.sa_flags = SA_SIGINFO;
    sigaction(SIGSEGV, &sa, nullptr);
    for (const char* op : OPS)
    {
        for (int arg = 0; arg < NELEM; ++arg)
        {
            g_wrote = 0;
            mprotect(g_shared, SHARED_BYTES, PROT_READ);
            const int res = sh.run(op, arg);
            mprotect(g_shared, SHARED_BYTES, PROT_READ | PROT_WRITE);
            out.line(std::string("{\"e\":\"prot\",\"op\":\"") + op + "\",\"arg\":" + std::to_string(arg) +
                     ",\"res\":" + std::to_string(res) + ",\"wrote\":" + std::to_string(static_cast<int>(g_wrote)) + "}");
        }
    }
    return 0;
}

// ---- schedule mode -----------------------------------------------------------------------------------------------------
struct Step
{
    int thread;
    std::string op;
};

inline std::vector<std::vector<Step>> read_schedules(const char* path)
{
    // one schedule per line: "t op t op ..."
    std::vector<std::vector<Step>> r;
    std::ifstream in(path);
    std::string line;
    while (std::getline(in, line))
    {
        std::istringstream is(line);
        std::vector<Step> s;
        Step st;
        while (is >> st.thread >> st.op) s.push_back(st);
        if (!s.empty()) r.push_back(s);
    }
    return r;
}

template <class T>
int run_sched(const char* schedfile, Out& out)
{
    Shared<T> sh;
    sh.setup();
    out.line(sh.setup_json());
    auto scheds = read_schedules(schedfile);
    for (std::size_t k = 0; k < scheds.size(); ++k)
    {
        const auto& sc = scheds[k];
        int nthreads = 0;
        for (const auto& st : sc) nthreads = st.thread > nthreads ? st.thread : nthreads;
        std::atomic<int> turn{0};
        std::vector<int> results(sc.size(), -7);
        std::vector<std::thread> ths;
        for (int t = 1; t <= nthreads; ++t)
        {
            ths.emplace_back(
                [&, t]
                {
                    for (std::size_t pos = 0; pos < sc.size(); ++pos)
                    {
                        if (sc[pos].thread != t) continue;
                        // relaxed: orders the steps in time without creating a happens-before edge between them
                        while (turn.load(std::memory_order_relaxed) != static_cast<int>(pos)) std::this_thread::yield();
                        results[pos] = sh.run(sc[pos].op, static_cast<int>(pos));
                        turn.store(static_cast<int>(pos) + 1, std::memory_order_relaxed);
                    }
                });
        }
        for (auto& th : ths) th.join();
        std::string lines;
        for (std::size_t pos = 0; pos < sc.size(); ++pos)
            lines += "{\"e\":\"rd\",\"sched\":" + std::to_string(k + 1) + ",\"t\":" + std::to_string(sc[pos].thread) +
                     ",\"op\":\"" + sc[pos].op + "\",\"arg\":" + std::to_string(pos) + ",\"res\":" +
                     std::to_string(results[pos]) + "}\n";
        lines.pop_back();
        out.line(lines);
    }
    return 0;
}

template <class T>
int run_free(int nthreads, int rounds, Out& out)
{
    Shared<T> sh;
    sh.setup();
    out.line(sh.setup_json());
    std::vector<std::vector<int>> res(static_cast<std::size_t>(nthreads));
    std::vector<std::thread> ths;
    for (int t = 0; t < nthreads; ++t)
    {
        ths.emplace_back(
            [&, t]
            {
                unsigned x = 12345u + static_cast<unsigned>(t) * 7919u;
                for (int r = 0; r < rounds; ++r)
                {
                    x = x * 1664525u + 1013904223u;
                    const int op = static_cast<int>((x >> 16) % 8);
                    const int arg = static_cast<int>((x >> 8) % 3);
                    res[static_cast<std::size_t>(t)].push_back(op * 100000 + arg * 10000 + sh.run(OPS[op], arg));
                }
            });
    }
    for (auto& th : ths) th.join();
    for (int t = 0; t < nthreads; ++t)
        for (int code : res[static_cast<std::size_t>(t)])
            out.line(std::string("{\"e\":\"rd\",\"sched\":0,\"t\":") + std::to_string(t + 1) + ",\"op\":\"" + OPS[code / 100000] +
                     "\",\"arg\":" + std::to_string((code / 10000) % 10) + ",\"res\":" + std::to_string(code % 10000) + "}");
    return 0;
}

template <class T>
int dispatch(int argc, char** argv)
{
    const std::string mode = argv[1];
    const char* outpath = argv[argc - 1];
    int fd = ::open(outpath, O_WRONLY | O_CREAT | O_TRUNC | O_APPEND, 0644);
    if (fd < 0) return 3;
    Out out{fd};
    if (mode == "prot") return run_prot<T>(out);
    if (mode == "sched") return run_sched<T>(argv[3], out);
    if (mode == "free") return run_free<T>(std::atoi(argv[3]), std::atoi(argv[4]), out);
    return 3;
}
}  // namespace rd

#include <fcntl.h>

int main(int argc, char** argv)
{
    if (argc < 4) return 3;
    rd::g_shared = static_cast<unsigned char*>(
        mmap(nullptr, rd::SHARED_BYTES, PROT_READ | PROT_WRITE, MAP_PRIVATE | MAP_ANONYMOUS, -1, 0));
    rd::g_local = static_cast<unsigned char*>(
        mmap(nullptr, rd::LOCAL_BYTES, PROT_READ | PROT_WRITE, MAP_PRIVATE | MAP_ANONYMOUS | MAP_NORESERVE, -1, 0));
    const std::string type = argv[2];
    if (type == "fixed") return rd::dispatch<rd::TFixed>(argc, argv);
    if (type == "varying") return rd::dispatch<rd::TVarying>(argc, argv);
    if (type == "string") return rd::dispatch<rd::TString>(argc, argv);
    return 3;
}

// Ledger allocator + arena: every byte the library obtains is visible, classified and logged.
// No expectations live here: events are recorded, spec/Trace.tla judges them.
#pragma once
#include <sys/mman.h>
#include <unistd.h>

#include <cstddef>
#include <cstdint>
#include <cstdio>
#include <cstdlib>
#include <cstring>
#include <map>
#include <memory>
#include <new>
#include <string>
#include <type_traits>
#include <vector>

#if defined(__has_feature)
#if __has_feature(address_sanitizer)
#define VERIF_ASAN 1
#endif
#endif
#if defined(__SANITIZE_ADDRESS__)
#define VERIF_ASAN 1
#endif
#ifdef VERIF_ASAN
#include <sanitizer/asan_interface.h>
#define VERIF_POISON(p, n) __asan_poison_memory_region((p), (n))
#define VERIF_UNPOISON(p, n) __asan_unpoison_memory_region((p), (n))
#else
#define VERIF_POISON(p, n) ((void)0)
#define VERIF_UNPOISON(p, n) ((void)0)
#endif

namespace verif
{
struct Block
{
    int id;
    unsigned char* base;
    std::size_t bytes;
    int inst;
    std::size_t align;
    bool live;
    unsigned char* gap_lo;  // canary region [gap_lo, base)
    unsigned char* gap_hi;  // canary region [base+bytes, gap_hi)
};

struct Loc
{
    int blk;
    long off;
};

struct Ledger
{
    static constexpr std::size_t ARENA = 4u << 20;
    static constexpr std::size_t GAP = 96;
    static constexpr unsigned char CANARY = 0xCB;

    unsigned char* arena = nullptr;
    std::size_t bump = 0;
    std::vector<Block> blocks;
    int next_id = 1;
    std::string sub;       // JSON fragments of sub-events of the current operation, comma separated
    long fail_countdown = -1;  // >0: the n-th allocation from now throws
    unsigned junk = 0;     // 0:0x00 1:0xFF 2:0xA5 3:LCG
    unsigned seed = 0;
    int allocs_in_op = 0;
    bool canary_dead = false;
    std::string canary_msg;

    void init(unsigned seed_, unsigned junk_)
    {
        seed = seed_;
        junk = junk_;
        if (!arena)
        {
            void* p = mmap(nullptr, ARENA + 8192, PROT_READ | PROT_WRITE, MAP_PRIVATE | MAP_ANONYMOUS, -1, 0);
            if (p == MAP_FAILED)
            {
                perror("mmap");
                _exit(3);
            }
            arena = static_cast<unsigned char*>(p);
            mprotect(arena + ARENA + 4096, 4096, PROT_NONE);
        }
        reset();
    }

    void reset()
    {
        VERIF_UNPOISON(arena, ARENA);
        bump = 0;
        blocks.clear();
        next_id = 1;
        sub.clear();
        fail_countdown = -1;
        allocs_in_op = 0;
        canary_dead = false;
        canary_msg.clear();
        VERIF_POISON(arena, ARENA);
    }

    void add_sub(const std::string& s)
    {
        // a library that runs away (a destructor loop over garbage counts, say) must end as a verdict, not as a trace
        // that is too large to judge
        if (sub.size() > (1u << 16))
        {
            fprintf(stderr, "VERIF-RUNAWAY: more than 64 kB of allocation/lifetime events inside one operation\n");
            abort();
        }
        if (!sub.empty()) sub += ',';
        sub += s;
    }

    void* allocate(std::size_t bytes, std::size_t align, int inst)
    {
        if (fail_countdown > 0 && --fail_countdown == 0)
        {
            add_sub("[\"throw\"," + std::to_string(inst) + "," + std::to_string(bytes) + "]");
            fail_countdown = -1;
            throw std::bad_alloc();
        }
        const std::size_t A = align ? align : 1;
        // base == (odd multiple of A) mod 8A : aligned to exactly A and no more; the multiple cycles with seed and id
        std::uintptr_t cur = reinterpret_cast<std::uintptr_t>(arena) + bump + GAP;
        std::uintptr_t q = (cur + 8 * A - 1) / (8 * A) * (8 * A);
        std::uintptr_t k = 2 * ((seed + static_cast<unsigned>(next_id)) % 4) + 1;
        unsigned char* base = reinterpret_cast<unsigned char*>(q + k * A);
        unsigned char* gap_lo = arena + bump;
        unsigned char* end = base + bytes;
        unsigned char* gap_hi = end + GAP;
        if (static_cast<std::size_t>(gap_hi - arena) > ARENA)
        {
            // the library asked for more than the whole arena within one short history: reported as a crash of
            // kind ALLOC_HUGE (a footprint violation), not as a failure of the machinery
            fprintf(stderr, "VERIF-HUGE: request of %zu bytes exhausts the %zu byte arena\n", bytes, ARENA);
            abort();
        }
        bump = static_cast<std::size_t>(gap_hi - arena);
        VERIF_UNPOISON(gap_lo, static_cast<std::size_t>(gap_hi - gap_lo));
        std::memset(gap_lo, CANARY, static_cast<std::size_t>(base - gap_lo));
        std::memset(end, CANARY, GAP);
        fill_junk(base, bytes);
        VERIF_POISON(gap_lo, static_cast<std::size_t>(gap_hi - gap_lo));
        VERIF_UNPOISON(base, bytes);
        Block b{next_id++, base, bytes, inst, A, true, gap_lo, gap_hi};
        blocks.push_back(b);
        ++allocs_in_op;
        add_sub("[\"alloc\"," + std::to_string(b.id) + "," + std::to_string(inst) + "," + std::to_string(bytes) + "," +
                std::to_string(A) + "]");
        return base;
    }

    void fill_junk(unsigned char* p, std::size_t n)
    {
        switch (junk % 4)
        {
            case 0: std::memset(p, 0x00, n); break;
            case 1: std::memset(p, 0xFF, n); break;
            case 2: std::memset(p, 0xA5, n); break;
            default:
            {
                unsigned x = seed * 2654435761u + 12345u + static_cast<unsigned>(next_id);
                for (std::size_t i = 0; i < n; ++i)
                {
                    x = x * 1664525u + 1013904223u;
                    p[i] = static_cast<unsigned char>(x >> 24);
                }
            }
        }
    }

    void deallocate(void* p, std::size_t bytes, int inst) noexcept
    {
        int id = -1;
        bool was_live = false;
        for (auto it = blocks.rbegin(); it != blocks.rend(); ++it)
        {
            if (it->base == p)
            {
                id = it->id;
                was_live = it->live;
                if (it->live)
                {
                    check_canary(*it);
                    it->live = false;
                    VERIF_POISON(it->base, it->bytes);
                }
                break;
            }
        }
        add_sub("[\"free\"," + std::to_string(id) + "," + std::to_string(inst) + "," + std::to_string(bytes) + "," +
                std::to_string(was_live ? 1 : 0) + "]");
    }

    void check_canary(const Block& b)
    {
#ifndef VERIF_ASAN
        for (unsigned char* q = b.gap_lo; q < b.base; ++q)
            if (*q != CANARY) note_canary(b, q);
        for (unsigned char* q = b.base + b.bytes; q < b.gap_hi; ++q)
            if (*q != CANARY) note_canary(b, q);
#else
        (void)b;
#endif
    }

    void note_canary(const Block& b, unsigned char* q)
    {
        if (!canary_dead)
        {
            canary_dead = true;
            canary_msg = "blk " + std::to_string(b.id) + " off " + std::to_string(q - b.base);
        }
    }

    void check_all_canaries()
    {
        for (const auto& b : blocks)
            if (b.live) check_canary(b);
    }

    const Block* find(int id) const
    {
        for (const auto& b : blocks)
            if (b.id == id) return &b;
        return nullptr;
    }

    // Classify an address: the newest live block that contains it (one-past-the-end included),
    // else the newest freed one, else "outside".
    Loc locate(const void* vp) const
    {
        const unsigned char* p = static_cast<const unsigned char*>(vp);
        if (p == nullptr) return {0, 0};
        const Block* freed = nullptr;
        for (auto it = blocks.rbegin(); it != blocks.rend(); ++it)
        {
            if (p >= it->base && p <= it->base + it->bytes)
            {
                if (it->live) return {it->id, static_cast<long>(p - it->base)};
                if (!freed) freed = &*it;
            }
        }
        if (freed) return {freed->id, static_cast<long>(p - freed->base)};
        if (p >= arena && p < arena + ARENA) return {-1, static_cast<long>(p - arena)};
        return {-2, 0};
    }

    bool in_arena(const void* vp) const
    {
        const unsigned char* p = static_cast<const unsigned char*>(vp);
        return p >= arena && p < arena + ARENA;
    }

    std::string take_sub()
    {
        std::string s;
        s.swap(sub);
        allocs_in_op = 0;
        return s;
    }
};

inline Ledger& ledger()
{
    static Ledger l;
    return l;
}

// Allocator traits bundle: propagate_on_container_{copy_assignment,move_assignment,swap}, is_always_equal,
// select_on_container_copy_construction returns a fresh (unequal) instance.
template <bool Pocca, bool Pocma, bool Pocs, bool Ae, bool SoccFresh>
struct AllocKind
{
    static constexpr bool pocca = Pocca, pocma = Pocma, pocs = Pocs, ae = Ae, soccfresh = SoccFresh;
};

template <class T, class Kind>
struct LedgerAlloc
{
    using value_type = T;
    using propagate_on_container_copy_assignment = std::bool_constant<Kind::pocca>;
    using propagate_on_container_move_assignment = std::bool_constant<Kind::pocma>;
    using propagate_on_container_swap = std::bool_constant<Kind::pocs>;
    using is_always_equal = std::bool_constant<Kind::ae>;
    template <class U>
    struct rebind
    {
        using other = LedgerAlloc<U, Kind>;
    };

    int inst = 1;

    LedgerAlloc() = default;
    explicit LedgerAlloc(int i) noexcept : inst(i) {}
    template <class U>
    LedgerAlloc(const LedgerAlloc<U, Kind>& o) noexcept : inst(o.inst)
    {
    }

    T* allocate(std::size_t n) { return static_cast<T*>(ledger().allocate(n * sizeof(T), alignof(T), inst)); }
    void deallocate(T* p, std::size_t n) noexcept { ledger().deallocate(p, n * sizeof(T), inst); }

    LedgerAlloc select_on_container_copy_construction() const
    {
        if constexpr (Kind::soccfresh)
            return LedgerAlloc(inst < 10 ? inst + 10 : inst);
        else
            return *this;
    }

    template <class U>
    friend bool operator==(const LedgerAlloc& a, const LedgerAlloc<U, Kind>& b) noexcept
    {
        return Kind::ae || a.inst == b.inst;
    }
    template <class U>
    friend bool operator!=(const LedgerAlloc& a, const LedgerAlloc<U, Kind>& b) noexcept
    {
        return !(a == b);
    }
};
}  // namespace verif

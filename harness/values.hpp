// Value types used in configurations and their int <-> value mapping.
// Tracked<N,A> is the instrumented non-trivial type: every constructor, assignment and destructor that touches the
// arena is logged as a sub-event (spec/Trace.tla's lifetime sub-machine judges them); it never aborts on misuse.
#pragma once
#include "ledger.hpp"

#include <cstdint>
#include <map>
#include <string>
#include <type_traits>
#include <vector>

namespace verif
{
static constexpr int MOVED_VAL = 0;
static constexpr int DEAD_VAL = -3;     // read of an object that is not alive at that address
static constexpr int CLOBBER_VAL = -4;  // alive, but its bytes were overwritten behind its back
static constexpr int BADBLOB_VAL = -5;  // trivially copyable blob whose internal pattern is broken

struct ObjRec
{
    std::size_t size;
    int val;
};

struct Registry
{
    std::map<std::uintptr_t, ObjRec> live;  // only objects inside the arena
    void reset() { live.clear(); }
};

inline Registry& registry()
{
    static Registry r;
    return r;
}

inline std::string loc_json(const void* p)
{
    Loc l = ledger().locate(p);
    return std::to_string(l.blk) + "," + std::to_string(l.off);
}

template <int Size, int Align = 1>
struct alignas(Align) Tracked
{
    static_assert(Size >= 2);
    unsigned char b[Size];

    void put(int v)
    {
        b[0] = static_cast<unsigned char>(v & 0xff);
        b[1] = static_cast<unsigned char>((v >> 8) & 0xff);
        for (int i = 2; i < Size; ++i) b[i] = static_cast<unsigned char>(0x5A ^ i ^ v);
    }
    int raw() const { return b[0] | (b[1] << 8); }

    // value as seen by a reader; never traps
    int peek() const
    {
        if (!ledger().in_arena(this)) return raw();
        auto& r = registry().live;
        auto it = r.find(reinterpret_cast<std::uintptr_t>(this));
        if (it == r.end()) return DEAD_VAL;
        if (it->second.val != raw()) return CLOBBER_VAL;
        return raw();
    }

    void born(int kind, const void* src)
    {
        if (!ledger().in_arena(this)) return;
        registry().live[reinterpret_cast<std::uintptr_t>(this)] = ObjRec{Size, raw()};
        std::string s = "[\"ctor\"," + loc_json(this) + "," + std::to_string(Size) + "," + std::to_string(kind) + "," +
                        std::to_string(raw()) + ",";
        s += src ? loc_json(src) : std::string("-2,0");
        s += "]";
        ledger().add_sub(s);
    }

    void note_src_moved(const Tracked& o)
    {
        if (ledger().in_arena(&o))
        {
            auto it = registry().live.find(reinterpret_cast<std::uintptr_t>(&o));
            if (it != registry().live.end()) it->second.val = o.raw();
        }
    }

    explicit Tracked(int v = 1)
    {
        put(v);
        born(0, nullptr);
    }
    Tracked(const Tracked& o)
    {
        put(o.peek_src());
        born(1, &o);
    }
    Tracked(Tracked&& o) noexcept
    {
        put(o.peek_src());
        o.put(MOVED_VAL);
        note_src_moved(o);
        born(2, &o);
    }
    // reading a source: a dead/clobbered source is visible in the value the new object gets
    int peek_src() const
    {
        int v = peek();
        return v < 0 ? (60000 + (-v)) : v;
    }
    void assigned(int kind, const void* src)
    {
        if (!ledger().in_arena(this)) return;
        auto& r = registry().live;
        auto it = r.find(reinterpret_cast<std::uintptr_t>(this));
        int alive = it != r.end() ? 1 : 0;
        if (alive) it->second.val = raw();
        ledger().add_sub("[\"asg\"," + loc_json(this) + "," + std::to_string(Size) + "," + std::to_string(kind) + "," +
                         std::to_string(raw()) + "," + loc_json(src) + "," + std::to_string(alive) + "]");
    }
    Tracked& operator=(const Tracked& o)
    {
        if (this != &o)
        {
            put(o.peek_src());
            assigned(1, &o);
        }
        return *this;
    }
    Tracked& operator=(Tracked&& o) noexcept
    {
        if (this != &o)
        {
            put(o.peek_src());
            o.put(MOVED_VAL);
            note_src_moved(o);
            assigned(2, &o);
        }
        return *this;
    }
    ~Tracked()
    {
        if (!ledger().in_arena(this)) return;
        auto& r = registry().live;
        auto it = r.find(reinterpret_cast<std::uintptr_t>(this));
        int alive = it != r.end() ? 1 : 0;
        if (alive) r.erase(it);
        ledger().add_sub("[\"dtor\"," + loc_json(this) + "," + std::to_string(Size) + "," + std::to_string(alive) +
                         "]");
    }
    friend bool operator==(const Tracked& a, const Tracked& c) { return a.peek() == c.peek(); }
    friend bool operator!=(const Tracked& a, const Tracked& c) { return !(a == c); }
    friend bool operator<(const Tracked& a, const Tracked& c) { return a.peek() < c.peek(); }
};

// trivially copyable blob of N bytes with an internal pattern (so partial copies are visible)
template <int N, int Align = 1>
struct alignas(Align) Blob
{
    unsigned char b[N];
    Blob() = default;
    explicit Blob(int v)
    {
        b[0] = static_cast<unsigned char>(v);
        for (int i = 1; i < N; ++i) b[i] = static_cast<unsigned char>(v * 3 + i * 7);
    }
    int get() const
    {
        for (int i = 1; i < N; ++i)
            if (b[i] != static_cast<unsigned char>(b[0] * 3 + i * 7)) return BADBLOB_VAL;
        return b[0];
    }
    friend bool operator==(const Blob& a, const Blob& c) { return std::memcmp(a.b, c.b, N) == 0; }
    friend bool operator<(const Blob& a, const Blob& c) { return a.b[0] < c.b[0]; }
};

// A handle type: trivially MOVE constructible and trivially destructible, but with a user-provided (deep) copy
// constructor - the value lives in a pool cell, the object holds the cell's index.  Relocating such an object bytewise
// is fine; COPYING it bytewise makes two live objects share one cell.  decode() reports SHARED_VAL when, within one
// observation pass, the same cell is reached from two different addresses (Cntgs.tla: copies are independent).
static constexpr int SHARED_VAL = -7;
struct CellPool
{
    std::vector<int> val;
    std::map<int, const void*> seen;
    void begin_pass() { seen.clear(); }
};
inline CellPool& cell_pool()
{
    static CellPool p;
    return p;
}
template <int Tag = 0>
struct Cell
{
    int idx;
    static int fresh(int v)
    {
        cell_pool().val.push_back(v);
        return static_cast<int>(cell_pool().val.size()) - 1;
    }
    explicit Cell(int v = 1) : idx(fresh(v)) {}
    Cell(const Cell& o) : idx(fresh(cell_pool().val[static_cast<std::size_t>(o.idx)])) {}
    Cell(Cell&&) = default;
    Cell& operator=(const Cell& o)
    {
        cell_pool().val[static_cast<std::size_t>(idx)] = cell_pool().val[static_cast<std::size_t>(o.idx)];
        return *this;
    }
    Cell& operator=(Cell&& o) noexcept
    {
        cell_pool().val[static_cast<std::size_t>(idx)] = cell_pool().val[static_cast<std::size_t>(o.idx)];
        return *this;
    }
    ~Cell() = default;
    int get() const
    {
        if (idx < 0 || static_cast<std::size_t>(idx) >= cell_pool().val.size()) return BADBLOB_VAL;
        auto r = cell_pool().seen.emplace(idx, this);
        if (!r.second && r.first->second != this) return SHARED_VAL;
        return cell_pool().val[static_cast<std::size_t>(idx)];
    }
    int raw() const { return idx >= 0 && static_cast<std::size_t>(idx) < cell_pool().val.size() ? cell_pool().val[static_cast<std::size_t>(idx)] : BADBLOB_VAL; }
    friend bool operator==(const Cell& a, const Cell& c) { return a.raw() == c.raw(); }
    friend bool operator!=(const Cell& a, const Cell& c) { return !(a == c); }
    friend bool operator<(const Cell& a, const Cell& c) { return a.raw() < c.raw(); }
};
static_assert(std::is_trivially_move_constructible_v<Cell<>> && !std::is_trivially_copy_constructible_v<Cell<>> &&
              std::is_trivially_destructible_v<Cell<>>);
template <class T>
inline constexpr bool IS_CELL = false;
template <int Tag>
inline constexpr bool IS_CELL<Cell<Tag>> = true;

template <class T>
inline constexpr bool IS_BLOB = false;
template <int N, int A>
inline constexpr bool IS_BLOB<Blob<N, A>> = true;

template <class T, class = void>
struct VT
{
    static constexpr bool tracked = false;
    static T make(int v) { return static_cast<T>(v); }
    // comparison domain (digits 1..3): floating-point parameters use +0.0 / -0.0 / 3.0 - digits 1 and 2 are two
    // representations of ONE logical value (Cntgs!ValC maps both to 1)
    static T make_digit(int d)
    {
        if constexpr (std::is_floating_point_v<T>)
            return d == 1 ? T(0.0) : (d == 2 ? -T(0.0) : T(d));
        else if constexpr (std::is_integral_v<T> && std::is_signed_v<T>)
            return d == 3 ? static_cast<T>(-1) : static_cast<T>(d);   // value order differs from byte order
        else
            return static_cast<T>(d);
    }
    static int decode(const T& x)
    {
        if constexpr (std::is_floating_point_v<T>)
            return x == T(0) ? 1 : static_cast<int>(x);
        else
            return static_cast<int>(x);
    }
};
template <int N, int A>
struct VT<Tracked<N, A>>
{
    static constexpr bool tracked = true;
    static Tracked<N, A> make(int v) { return Tracked<N, A>(v); }
    static Tracked<N, A> make_digit(int d) { return Tracked<N, A>(d); }
    static int decode(const Tracked<N, A>& x) { return x.peek(); }
};
template <int N, int A>
struct VT<Blob<N, A>>
{
    static constexpr bool tracked = false;
    static Blob<N, A> make(int v) { return Blob<N, A>(v); }
    static Blob<N, A> make_digit(int d) { return Blob<N, A>(d); }
    static int decode(const Blob<N, A>& x) { return x.get(); }
};
template <int Tag>
struct VT<Cell<Tag>>
{
    static constexpr bool tracked = false;
    static Cell<Tag> make(int v) { return Cell<Tag>(v); }
    static Cell<Tag> make_digit(int d) { return Cell<Tag>(d); }
    static int decode(const Cell<Tag>& x) { return x.get(); }
};
template <>
struct VT<std::string>
{
    static constexpr bool tracked = false;
    static std::string make(int v) { return "a long string value that is not stored inline #" + std::to_string(v); }
    static std::string make_digit(int d) { return make(d); }
    static int decode(const std::string& x)
    {
        auto p = x.rfind('#');
        if (p == std::string::npos) return x.empty() ? MOVED_VAL : -6;
        return std::atoi(x.c_str() + p + 1);
    }
};
}  // namespace verif

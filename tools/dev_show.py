#!/usr/bin/env python3
"""developer helper: show the newest cached result of a configuration: dev_show.py CFG [index]"""
import json,glob,sys,os
fs=sorted(glob.glob('/verif/build/runs/*/result.json'),key=os.path.getmtime,reverse=True)
want=sys.argv[1]; idx=int(sys.argv[2]) if len(sys.argv)>2 else 0
for f in fs:
    r=json.load(open(f))
    if r['cfg']==want and r['verdicts']:
        seen=[]; 
        for v in r['verdicts']:
            sig=(v['n'],tuple(v['kinds']))
            if sig in seen: continue
            seen.append(sig)
        vs=[v for v in r['verdicts']]
        v=vs[idx]
        print(f, r['scen'], r['ak'])
        print(v['h'],v['s'],v['n'],v['kinds']); print('\n'.join(v['ops'][:v['s']+1])); print(v.get('crashmsg'))
        break

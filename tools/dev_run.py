#!/usr/bin/env python3
"""developer helper: run one scenario on some configurations and summarise verdicts"""
import sys, json, collections
from concurrent.futures import ThreadPoolExecutor
sys.path.insert(0, __import__('os').path.dirname(__file__))
import vlib

def main():
    scen, tier = sys.argv[1], sys.argv[2]
    ak = sys.argv[3]
    names = sys.argv[4:]
    cfgs, akinds, _ = vlib.load_configs()
    if not names: names = list(cfgs)
    tlcpool = ThreadPoolExecutor(vlib.NCPU)
    upool = ThreadPoolExecutor(8)
    build = __import__('os').environ.get('BUILD', 'asan')
    futs = {n: upool.submit(vlib.run_unit, cfgs[n], ak, akinds[ak], scen, tier, 1, tlcpool, build) for n in names}
    for n, f in futs.items():
        try:
            r = f.result()
        except vlib.Infra as e:
            print(n, 'INFRA', e); continue
        if r['build_failed']:
            print(n, 'BUILD FAILED'); print(r['diag'][-1500:]); continue
        sig = collections.Counter((v['n'], tuple(sorted(v['kinds']))) for v in r['verdicts'])
        print('%-6s hist=%d accepted=%d states=%d model=%d/%d unconf=%d wall=%s' % (n, r['histories'], r['accepted'], r['states'], r['meta']['states'], r['meta']['transitions'], len(r['unconfirmed']), r['wall']))
        for s, c in sig.most_common(12):
            ex = next(v for v in r['verdicts'] if (v['n'], tuple(sorted(v['kinds']))) == s)
            print('    %4d  %s %s   e.g. h=%d s=%d' % (c, s[0], list(s[1]), ex['h'], ex['s']))
        for v in r['unconfirmed'][:3]:
            print('    UNCONFIRMED', v['h'], v['s'], v['n'], v['kinds'], v.get('rerun'))
main()

#!/usr/bin/env python3
"""regenerate MANIFEST.json's level_note per property from the unit tables (tools/props.py) and the scenario bounds
(tools/vlib.py), so that the notes state what the quick / thorough commands really explore"""
import json, os, sys, collections
sys.path.insert(0, os.path.dirname(os.path.abspath(__file__)))
import vlib, props

SPECIAL = {
    'C15': 'every applicable (parameter kind, source form 1..15, type pair, length 0..3) case of spec/Sources.tla, executed in '
           'a clang++ -std=c++17 and a g++ -std=c++20 ASan/UBSan build; quick = thorough (the case set is exhaustive).',
    'C19': 'spec/Readers.tla: 2 threads x 2 const operations, all interleavings (quick replays a third under TSan, thorough '
           'all), mprotect leg, 4 (quick) / 16 (thorough) free-running threads.',
    'C20': 'operation groups x parameter lists x allocator kinds compiled against the real templates (quick: 3 kinds, '
           'thorough: 11 kinds).',
}


def describe(units):
    by = collections.OrderedDict()
    for scen, c, ak, b in units:
        k = by.setdefault(scen, {'lists': set(), 'aks': set(), 'builds': set()})
        k['lists'].add(c if isinstance(c, str) else c['id'])
        k['aks'].add(ak)
        k['builds'].add(b)
    return by


def note(pid):
    if pid in SPECIAL:
        return SPECIAL[pid]
    out = []
    for tier in ('quick', 'thorough'):
        us = props.PROPS[pid]['units'][tier]
        lazy = isinstance(us, props.Units) and us.lazy is not None
        parts = []
        for scen, k in describe(list(us)).items():
            sc = vlib.SCENARIOS[scen][tier]
            bounds = ', '.join('%s=%s' % (x, sc[x]) for x in ('MaxCap', 'MaxCount', 'MaxReserve', 'MaxFault', 'histories', 'length', 'num', 'depth') if x in sc)
            builds = sorted(k['builds'])
            parts.append('%s on %d lists x kinds %s%s (%s)' % (scen, len(k['lists']), '/'.join(sorted(k['aks'])),
                                                                '' if builds == ['asan'] else ' builds ' + '/'.join(builds), bounds))
        if lazy:
            parts.append('layout universe lists (spec/GenLayout.tla; %s selection) with scenario SU' % tier)
        out.append('%s: %s' % (tier, '; '.join(parts)))
    return ('bounded TLA+ models (constants in tools/vlib.py SCENARIOS; lists with a VaryingSize parameter use the reduced '
            'thorough bounds THOROUGH_VARYING) - ' + ' | '.join(out) +
            '. Trusted: the driver, the ledger allocator, the instrumented value type, ASan/UBSan; only the instantiated '
            'parameter lists are bound to the code.')


def main():
    p = os.path.join(vlib.VERIF, 'MANIFEST.json')
    m = json.load(open(p))
    for c in m['checks']:
        c['level_note'] = note(c['property_id'])
    json.dump(m, open(p, 'w'), indent=2)
    print('level notes regenerated for %d checks' % len(m['checks']))


main()

#!/usr/bin/env python3
"""developer helper: dev_universe.py <universe> <stride> [offset] : run every stride-th list of a universe (SU scenario)"""
import sys, os, json, time, collections
from concurrent.futures import ThreadPoolExecutor
sys.path.insert(0, os.path.dirname(os.path.abspath(__file__)))
import vlib
name, stride = sys.argv[1], int(sys.argv[2]); off = int(sys.argv[3]) if len(sys.argv) > 3 else 0
tier = os.environ.get('TIER', 'quick')
u = vlib.gen_universe(name)
cfgs, ak, _ = vlib.load_configs()
lists = u['lists'][off::stride]
tlc = ThreadPoolExecutor(16); up = ThreadPoolExecutor(16)
t = time.time()
futs = [(d, up.submit(vlib.run_unit, vlib.cfg_of_list(d), 'AE', ak['AE'], 'SU', tier, 1, tlc, 'asan0')) for d in lists]
bad = 0
sig = collections.Counter()
for d, f in futs:
    try: r = f.result()
    except vlib.Infra as e: print('INFRA', e); continue
    if r.get('build_failed'): print('BUILD FAILED', vlib.describe_list(vlib.cfg_of_list(d))); print(r['diag'][-400:]); continue
    if r['verdicts']:
        bad += 1
        v = r['verdicts'][0]
        sig[(v['n'], tuple(sorted(v['kinds'])))] += 1
        print(vlib.describe_list(vlib.cfg_of_list(d)), '|', v['n'], v['kinds'], '|', '; '.join(o[2:] for o in v['ops'][:v['s']]))
print('%d lists, %d with divergences, %.0f s' % (len(lists), bad, time.time() - t)); print(sig)

#!/usr/bin/env python3
"""seed_keep.py <ID> <suffix-or-''> <name> '<detecting checks / notes>' : file a confirmed seeded change under /verif/seeded/<name>/"""
import json, os, shutil, sys
ID, sfx, name, note = sys.argv[1:5]
sd = '/tmp/seed_%s%s' % (ID, sfx)
dst = '/verif/seeded/%s' % name
os.makedirs(dst, exist_ok=True)
for f in ['patch.diff', 'demo.cpp']:
    shutil.copy(os.path.join(sd, f), os.path.join(dst, f))
m = json.load(open(os.path.join(sd, 'meta.json')))
m['confirmed_by_me'] = 'tools/seed_verify.sh: existing 223 ctest cases pass with the change; demo.cpp exits non-zero with the change and 0 without it (scratch worktree, removed afterwards)'
m['checks_run'] = note
json.dump(m, open(os.path.join(dst, 'meta.json'), 'w'), indent=1)
print('kept', dst)

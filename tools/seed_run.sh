#!/bin/bash
# seed_run.sh <ID> <suffix-or-empty> <check ids...> : run checks against the seeded worktree (VERIF_REPO)
ID=$1; SFX=$2; shift 2
for c in "$@"; do
  echo "--- ./check $c against seed $ID$SFX"
  VERIF_REPO=/tmp/wt_$ID$SFX timeout 1500 /verif/check $c 2>&1 | grep -v "^NOTE\|^KNOWN" | grep -E "VIOLATION|quick:|INFRA" | head -4
done

#!/usr/bin/env python3
"""EDGE lines printed by TLC (spec/Gen.tla, ACTION_CONSTRAINT EmitEdge) -> histories for the driver.

  plan.py cover  <tlc-output> <plan-out> [--maxlen N]   every transition of the model at least once
  plan.py paths  <tlc-output> <plan-out> --depth D      every path of length <= D from Init (bounded enumeration)

A history is a walk from the initial state.  Output format (read by harness/driver.hpp):
  H <id> / O <name> <v> <args...> / E
A side file <plan-out>.json records: states, transitions, transitions covered, per-action counts, walks.
"""
import json
import sys
from collections import defaultdict, deque


MUTATORS = {'PopBack', 'Erase', 'EraseRange', 'Clear', 'Reserve', 'CopyConstruct', 'CopyAssign', 'MoveConstruct',
            'MoveAssign', 'Swap'}


def read_edges(path):
    edges = []  # (s, act, t)
    with open(path, errors='replace') as f:
        for line in f:
            if not line.startswith('<<"EDGE", "'):
                continue
            body = line.rstrip('\n')
            body = body[len('<<"EDGE", "'):]
            if not body.endswith('">>'):
                continue
            body = body[:-3]
            body = body.replace('\\"', '"').replace('\\\\', '\\')
            d = json.loads(body)
            edges.append((json.dumps(d['s'], sort_keys=True), d['a'], json.dumps(d['t'], sort_keys=True)))
    return edges


def build(edges):
    ids = {}
    adj = defaultdict(list)  # sid -> list of (eid, tid)
    elist = []
    seen = set()
    for s, a, t in edges:
        for x in (s, t):
            if x not in ids:
                ids[x] = len(ids)
        key = (ids[s], json.dumps(a, sort_keys=True), ids[t])
        if key in seen:
            continue
        seen.add(key)
        eid = len(elist)
        elist.append((ids[s], a, ids[t]))
        adj[ids[s]].append((eid, ids[t]))
    return ids, adj, elist


def bfs_paths(adj, init, elist=None):
    """shortest edge path from init to every state (never through an injected-failure edge)"""
    prev = {init: None}
    dq = deque([init])
    while dq:
        s = dq.popleft()
        for eid, t in adj[s]:
            if elist is not None and elist[eid][1].get('fault', 0) > 0:
                continue
            if t not in prev:
                prev[t] = (s, eid)
                dq.append(t)

    def path(s):
        p = []
        while prev[s] is not None:
            s, eid = prev[s]
            p.append(eid)
        return list(reversed(p))
    return prev, path


def cover(adj, elist, init, maxlen):
    prev, path = bfs_paths(adj, init, elist)
    depth = {}
    for s in prev:
        depth[s] = len(path(s))
    uncovered = set(range(len(elist)))
    walks = []
    order = sorted(range(len(elist)), key=lambda e: (depth.get(elist[e][0], 1 << 30), e))
    for e0 in order:
        if e0 not in uncovered:
            continue
        s0 = elist[e0][0]
        if s0 not in prev:
            continue
        walk = path(s0)
        for e in walk:
            uncovered.discard(e)
        walk.append(e0)
        uncovered.discard(e0)
        cur = elist[e0][2]
        if elist[e0][1].get('fault', 0) > 0:
            walks.append(walk)      # an injected failure ends the history (plus its fixed suffix)
            continue
        probe_next = elist[e0][1]['n'] in MUTATORS
        nprobe = e0
        while len(walk) < maxlen:
            # a state-changing operation whose effect on the bookkeeping only shows at the NEXT emplace_back
            # (stale end marker, wrong capacity, ...) is followed by an Emplace probe before the walk goes on
            if probe_next:
                probe_next = False
                pr = [(eid, t) for eid, t in adj[cur] if elist[eid][1]['n'] == 'Emplace']
                if pr:
                    unc = [x for x in pr if x[0] in uncovered]
                    nprobe += 1
                    eid, t = unc[nprobe % len(unc)] if unc else pr[nprobe % len(pr)]
                    walk.append(eid)
                    uncovered.discard(eid)
                    cur = t
                    continue
            # prefer an uncovered edge out of cur; else an edge to a state that has uncovered edges
            cand = [(eid, t) for eid, t in adj[cur] if eid in uncovered and elist[eid][1].get('fault', 0) == 0]
            if cand:
                eid, t = cand[0]
            else:
                nxt = None
                for eid, t in adj[cur]:
                    if elist[eid][1].get('fault', 0) > 0:
                        continue
                    if t != cur and any(e2 in uncovered for e2, _ in adj[t]):
                        nxt = (eid, t)
                        break
                if nxt is None:
                    break
                eid, t = nxt
            walk.append(eid)
            uncovered.discard(eid)
            probe_next = elist[eid][1]['n'] in MUTATORS and elist[eid][0] != t
            cur = t
        walks.append(walk)
    return walks, uncovered


def state_class(sjson, fine=False):
    """class of a model state: per vector absent / moved / empty / partial / full (fine: size, capacity, budget and
    whether it was default-constructed), per element its status"""
    try:
        vecs, els = json.loads(sjson)
    except Exception:
        return sjson
    out = []
    for v in vecs:
        if v[0] != 'live':
            out.append(v[0])
        elif fine:
            out.append('%d/%d/%s/%s' % (len(v[-1]), v[1], v[2], v[5]))
        else:
            n, cap = len(v[-1]), v[1]
            out.append('empty' if n == 0 else ('full' if n >= cap else 'partial'))
    for e in els:
        out.append(e[0] if isinstance(e, list) else e.get('st', '?'))
    return '|'.join(out)


def pair_walks(adj, elist, init, walks, mode, states_by_id, maxlen):
    """two-step coverage: for every (operation A into a state, operation B out of it) - per state CLASS (mode
    'class') or per STATE (mode 'state') - one history that performs A directly followed by B (and an Emplace probe).
    A defect that needs two specific operations in a row is exercised even when the transition cover happened to
    place something else between them."""
    prev, path = bfs_paths(adj, init, elist)

    def key(e1, e2):
        t = elist[e1][2]
        c = states_by_id[t] if mode == 'state' else state_class(states_by_id[t], mode == 'shape')
        return (elist[e1][1]['n'], elist[e2][1]['n'], c)
    covered = set()
    for w in walks:
        for a, b in zip(w, w[1:]):
            covered.add(key(a, b))
    extra = []
    order = sorted(prev, key=lambda s: len(path(s)))
    for s in order:
        for e1, t in adj[s]:
            if elist[e1][1].get('fault', 0) > 0 or elist[e1][1]['n'] not in MUTATORS and elist[e1][1]['n'] != 'Emplace':
                continue
            for e2, t2 in adj[t]:
                if elist[e2][1].get('fault', 0) > 0:
                    continue
                k = key(e1, e2)
                if k in covered:
                    continue
                covered.add(k)
                w = path(s) + [e1, e2]
                if len(w) > maxlen + 2:
                    continue
                pr = [eid for eid, _ in adj[t2] if elist[eid][1]['n'] == 'Emplace' and elist[eid][1].get('fault', 0) == 0]
                if pr and elist[e2][1]['n'] in MUTATORS:
                    w.append(pr[len(extra) % len(pr)])
                extra.append(w)
    return extra


def all_paths(adj, init, depth):
    walks = []

    def rec(s, acc):
        if acc:
            ext = False
        if len(acc) == depth or not adj[s]:
            if acc:
                walks.append(list(acc))
            return
        for eid, t in adj[s]:
            acc.append(eid)
            rec(t, acc)
            acc.pop()
    rec(init, [])
    return walks


def fault_suffix(a):
    """after an operation with an injected allocation failure: one more operation that is valid whether or not the
    failure fired, showing that the operand is still usable (C17: assignable / reservable)"""
    args = ' '.join(str(x) for x in a['a'])
    if a['n'] in ('CopyAssign', 'Reserve', 'ElemCopyAssign'):
        return ['O %s %d %s' % (a['n'], a['v'], args)]
    if a['n'] == 'MoveAssign':
        return ['O Clear %d ' % a['v']]
    return []


def write_plan(walks, elist, out, first_id=1):
    with open(out, 'w') as f:
        hid = first_id
        for w in walks:
            f.write('H %d\n' % hid)
            for eid in w:
                a = elist[eid][1]
                if a.get('fault', 0) > 0:
                    f.write('O Fail %d\n' % a['fault'])
                f.write('O %s %d %s\n' % (a['n'], a['v'], ' '.join(str(x) for x in a['a'])))
                if a.get('fault', 0) > 0:
                    for ln in fault_suffix(a):
                        f.write(ln + '\n')
            f.write('E\n')
            hid += 1


def main():
    mode, src, out = sys.argv[1], sys.argv[2], sys.argv[3]
    opts = sys.argv[4:]
    maxlen = 30
    depth = 4
    for i, o in enumerate(opts):
        if o == '--maxlen':
            maxlen = int(opts[i + 1])
        if o == '--depth':
            depth = int(opts[i + 1])
    edges = read_edges(src)
    if not edges:
        print('plan.py: no EDGE lines in', src, file=sys.stderr)
        sys.exit(2)
    ids, adj, elist = build(edges)
    # the initial state is the only one that is never a target of a non-self edge and is the source of the first edge
    init = elist[0][0]
    pairs = 'none'
    for i, o in enumerate(opts):
        if o == '--pairs':
            pairs = opts[i + 1]
    npair = 0
    if mode == 'cover':
        walks, uncovered = cover(adj, elist, init, maxlen)
        if pairs != 'none':
            by_id = {v: k for k, v in ids.items()}
            extra = pair_walks(adj, elist, init, walks, pairs, by_id, maxlen)
            npair = len(extra)
            walks += extra
    else:
        walks = all_paths(adj, init, depth)
        uncovered = set(range(len(elist))) - {e for w in walks for e in w}
    write_plan(walks, elist, out)
    counts = defaultdict(int)
    for w in walks:
        for e in w:
            counts[elist[e][1]['n']] += 1
    model_counts = defaultdict(int)
    for s, a, t in elist:
        model_counts[a['n']] += 1
    meta = {'mode': mode, 'states': len(ids), 'transitions': len(elist), 'uncovered': len(uncovered),
            'walks': len(walks), 'pair_walks': npair, 'ops': sum(len(w) for w in walks), 'per_action_model': dict(model_counts),
            'per_action_plan': dict(counts),
            'sample': [[elist[e][1] for e in w] for w in walks[:1] + walks[len(walks) // 2:len(walks) // 2 + 1]]}
    json.dump(meta, open(out + '.json', 'w'))
    print('plan: %(states)d states %(transitions)d transitions -> %(walks)d walks, %(ops)d ops, %(uncovered)d uncovered'
          % meta)


if __name__ == '__main__':
    main()

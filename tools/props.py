"""Property table: which scenarios / configurations / judgements decide which property; known findings;
evidence; replay.  The judgements themselves are made by spec/Trace.tla - this file only routes them."""
import json
import os
import shutil
import subprocess
import sys
import time
from concurrent.futures import ThreadPoolExecutor

import vlib

VERIF = vlib.VERIF
OUT = os.path.join(VERIF, 'out')
# the evidence directory describes runs against /repo; a developer run against another tree (VERIF_REPO) must not touch it
EVID_DIR = os.path.join(VERIF, 'evidence') if vlib.REPO == '/repo' else os.path.join(OUT, 'evidence_other_tree')

ALL = ['P_T', 'P_TA', 'P_N', 'F_T', 'F_TA', 'F_N', 'V_T', 'V_TA', 'V_N', 'M_T', 'M_NA', 'VV_T']
VARYING = ['V_T', 'V_TA', 'V_N', 'M_T', 'M_NA', 'VV_T']
ALIGNED = ['P_TA', 'F_TA', 'V_TA', 'M_NA', 'VV_T']
NONTRIV = ['P_N', 'F_N', 'V_N', 'M_NA', 'P_NM']     # P_NM: a non-trivial plain field BETWEEN two trivial ones
CELL_LISTS = ['P_C', 'V_C']
CXX20_LISTS = ['V_T', 'V_N', 'F_T', 'F_N', 'M_NA', 'VV_T', 'P_TA']
NONTRIV_A = ['V_NA', 'PV_NA', 'VA_N']   # non-trivial AlignAs objects whose size is not a multiple of the alignment (relocation overlaps); VA_N: an aligned (possibly empty) span in front of a non-trivial field
S5Q = ['P_T', 'P_TA', 'P_N', 'F_T', 'F_TA', 'F_N', 'V_T', 'V_TA', 'V_N', 'M_T', 'B_T', 'B_TA', 'VB_T', 'P_TB', 'B_B', 'BB_T', 'SB_T',
       'Z_T']     # Z_T: FixedSize parameters with extent 0 (elements of zero bytes)

K_SEQ = {'SIZE', 'EMPTY', 'CAP', 'SHAPE', 'VALUES', 'RETURNED_ITERATOR', 'STATE', 'OBS_MISSING', 'OBS_OF_ABSENT'}
K_MEM = {'BOUNDS', 'DATA_RANGE', 'DATA_EXCEEDS_MEMORY_CONSUMPTION', 'MEMORY_CONSUMPTION_EXCEEDS_BLOCK',
         'DATA_NOT_IN_LIVE_BLOCK', 'CANARY', 'NULL_DATA_BUT_ELEMENTS'}
K_ALIGN = {'ALIGN'}
K_ORDER = {'ORDER', 'FIXED_SIZE', 'SHAPE', 'DATA_BEGIN'}
K_TIGHT = {'TIGHT', 'FULL_FOOTPRINT', 'FOOTPRINT'}
K_LIFE = {'CTOR_OVERLAPS_LIVE', 'CTOR_OUTSIDE_BLOCK', 'CTOR_FROM_DEAD', 'DTOR_OF_DEAD', 'ASSIGN_TO_DEAD',
          'ASSIGN_FROM_DEAD', 'LIVE_OBJECTS', 'OBJECTS_NEVER_DESTROYED', 'RELOCATION_KIND'}
K_LEDGER = {'FREE_UNKNOWN_OR_TWICE', 'FREE_WRONG_SIZE', 'FREE_THROUGH_UNEQUAL_ALLOCATOR', 'LEAK',
            'DATA_NOT_IN_LIVE_BLOCK', 'BLOCK_FROM_UNEQUAL_ALLOCATOR'}
K_ALLOC = {'GET_ALLOCATOR', 'BLOCK_FROM_UNEQUAL_ALLOCATOR', 'FREE_THROUGH_UNEQUAL_ALLOCATOR', 'ELEMENTWISE_MOVE'}
K_VALUE = K_SEQ | {'BYSTANDER_CHANGED', 'LOGGED_PARAMETER', 'SHARED_BLOCK'}
K_STABLE = {'ALLOCATOR_USED', 'BLOCK_CHANGED', 'CAPACITY_CHANGED', 'ADDRESS_MOVED', 'BLOCK_NOT_TRANSFERRED'}
K_EMPTY = K_SEQ | K_MEM | {'EMPTY_RANGE'}
MEMCRASH = ('CRASH:ASAN', 'CRASH:SIGSEGV', 'CRASH:SIGBUS', 'CRASH:UBSAN', 'CRASH:SIGABRT')


ANY = None


def is_crash(v):
    return any(k.startswith('CRASH:') for k in v['kinds'])


def crash_any(v, unit):
    return is_crash(v)


def crash_mem(v, unit):
    return any(k.startswith(MEMCRASH) for k in v['kinds'])


def crash_assert(v, unit):
    return any(k.startswith(('CRASH:ASSERT', 'CRASH:SIGABRT')) for k in v['kinds'])


def never(v, unit):
    return False


def at_reserve(v, unit):
    return v['n'] == 'Reserve'


def on_empty(v, unit):
    """the step starts or ends with no element, or the vector began its life default-constructed (C18)"""
    return v.get('sz0', 1) == 0 or v.get('sz1', 1) == 0 or v.get('dc') is True


def reserve_related(v, unit):
    """the Reserve step itself, or a later step of a history in which this vector was reserved (C10: the reserved
    room must really be there)"""
    if v['n'] == 'Reserve':
        return True
    ops = v.get('ops', [])[:max(0, v['s'] - 1)]
    if not any(o.startswith('O Reserve ') for o in ops):
        return False
    return bool(set(v['kinds']) & (K_MEM | K_SEQ)) or is_crash(v)




def u(scen, cfgs, aks=('AE',), builds=('asan',)):
    return [(scen, c, ak, b) for c in cfgs for ak in aks for b in builds]


def ul(tier):
    """units of the layout universe (spec/GenLayout.tla): a fixed, seed-independent selection per tier"""
    def units():
        # selection by alignment signature (vlib.list_signature), fixed and seed-independent
        # quick: a stratified sample; thorough: EVERY list without a VaryingSize parameter (their fill model is tiny)
        # and one list per fine signature of those with one (every fourth signature for the three-parameter lists)
        if tier == 'quick':
            sel = [('pairs', False, True, 1, False, 1), ('pairs2', False, True, 3, False, 1),
                   ('triples', False, True, 16, False, 2),
                   ('pairs', False, False, 8, False, 1), ('pairs2', False, False, 24, False, 1),
                   ('triples', False, False, 100, False, 1), ('pairs3', False, None, 4, False, 1)]
        else:
            sel = [('pairs', True, True, 1, True, 1), ('pairs2', True, True, 1, True, 1), ('triples', True, True, 1, True, 1),
                   ('pairs', True, False, 1, False, 1), ('pairs2', True, False, 1, False, 1),
                   ('triples', True, False, 4, False, 1), ('pairs3', True, None, 1, True, 1)]
        out = []
        seen = set()
        picked = [d for name, fine, cheap, every, everything, reps in sel
                  for d in vlib.select_lists(name, fine, cheap, every, everything, reps)]
        if tier == 'quick':
            # plus one list per signature of those whose parameter sizes are misleading about where they end
            picked += vlib.select_where('triples', vlib.misleading_size)
        for d in picked:
            cfg = vlib.cfg_of_list(d)
            if cfg['id'] not in seen:
                seen.add(cfg['id'])
                out.append(('SU', cfg, 'AE', 'asan0'))
        return out
    return units


class Units(list):
    """static units plus lazily enumerated universe units"""
    def __init__(self, static, lazy=None):
        super().__init__(static)
        self.lazy = lazy

    def all(self):
        return list(self) + (self.lazy() if self.lazy else [])


# property -> units per tier, judgement kinds routed to it, crash routing, extra filter
PROPS = {
    'C01': {'level': 'model_checking',
            'units': {'quick': u('S1', ALL + ['Z_T', 'ZP_T', 'P_NM'] + NONTRIV_A + CELL_LISTS) + u('SR', ['V_T', 'V_N', 'F_N', 'M_NA']) + u('S1sim', ['V_T', 'M_NA'])
                               + u('S1', ['V_N', 'M_T'], ('AE',), ('cxx20',)),
                      'thorough': u('S1', ALL, ('AE', 'NP')) + u('S1', ALL, ('AE',), ('ndebug',)) + u('SR', ALL, ('AE', 'PR'))
                                  + u('S1sim', ALL, ('AE',)) + u('S1', CXX20_LISTS, ('AE',), ('cxx20',))},
            'kinds': K_SEQ | {'PATHS_DISAGREE'}, 'crash': crash_any, 'filter': None,
            'technique': 'TLA+ model (Cntgs.tla) explored by TLC; transition-cover histories replayed on the real '
                         'templates; every step of the recorded trace judged by Trace.tla (sequence semantics)'},
    'C02': {'level': 'model_checking',
            # S2: a block taken over or reused by an assignment must be large enough for what the vector then promises
            'units': {'quick': Units(u('S1', ALL) + u('SF', VARYING) + u('S2', ALL, ('NP',)), ul('quick')),
                      'thorough': Units(u('S1', ALL, ('AE', 'NP')) + u('SF', VARYING) + u('S2', ALL, ('NP', 'AE', 'PR')), ul('thorough'))},
            'kinds': K_MEM, 'crash': crash_mem, 'filter': None,
            'technique': 'TLC-enumerated histories and payload distributions replayed under ASan with poisoned '
                         'redzones; observed addresses judged against block bounds by Trace.tla/Layout.tla'},
    'C03': {'level': 'model_checking',
            'units': {'quick': Units(u('S1', ALIGNED + NONTRIV_A) + u('SF', ['V_TA', 'M_NA', 'VV_T'])
                                     + u('S1', ['V_TA', 'M_NA'], ('AE',), ('ndebug',)) + u('S1', ['M_NA'], ('AE',), ('ndebug20',)), ul('quick')),
                      'thorough': Units(u('S1', ALIGNED, ('AE', 'NP')) + u('SF', ['V_TA', 'M_NA', 'VV_T'])
                                        + u('S1', ALIGNED, ('AE',), ('ndebug',)) + u('S2', ALIGNED, ('AE',), ('ndebug',))
                                        + u('S3', ALIGNED, ('AE',), ('ndebug',)) + u('S1', ALIGNED, ('AE',), ('ndebug20', 'cxx20')), ul('thorough'))},
            'kinds': K_ALIGN, 'crash': crash_assert, 'filter': None,
            'technique': 'observed numeric addresses of AlignAs objects judged by Layout!ElemsAligned in every '
                         'recorded state; blocks based at odd multiples of the storage alignment; includes the g++ -O2 -DNDEBUG '
                         'build in which the library\'s assume_aligned hints are live'},
    'C04': {'level': 'model_checking',
            'units': {'quick': Units(u('S1', ALL + NONTRIV_A) + u('SF', VARYING) + u('S2', ALL, ('NP',)), ul('quick')),
                      'thorough': Units(u('S1', ALL + NONTRIV_A, ('AE', 'NP')) + u('SF', VARYING) + u('S2', ALL, ('NP', 'AE', 'PR')), ul('thorough'))},
            'kinds': K_ORDER, 'crash': never, 'filter': None,
            'technique': 'observed field/element ranges judged by Layout!ElemsInOrder (order, containment, '
                         'disjointness, span counts, iterator.data) in every recorded state'},
    'C05': {'level': 'model_checking',
            'units': {'quick': Units(u('S1', ALL + NONTRIV_A) + u('SF', VARYING) + u('S2', ALL, ('NP',)), ul('quick')),
                      'thorough': Units(u('S1', ALL + NONTRIV_A, ('AE', 'NP')) + u('SF', VARYING) + u('S2', ALL, ('NP', 'AE', 'PR')), ul('thorough'))},
            'kinds': K_TIGHT, 'crash': never, 'filter': None,
            'technique': 'observed offsets compared with the greedy layout of Layout.tla; footprint judged against '
                         'the observed footprint of a fresh vector'},
    'C06': {'level': 'model_checking',
            'units': {'quick': u('S1', NONTRIV + NONTRIV_A) + u('S2', NONTRIV, ('NP', 'PR')) + u('S1', ['V_N'], ('AE',), ('cxx20',))
                               + u('S4', NONTRIV),      # assignment / swap through references: no live object may be clobbered bytewise
                      'thorough': u('S1', NONTRIV + NONTRIV_A, ('AE', 'NP')) + u('S2', NONTRIV + NONTRIV_A, ('NP', 'AE', 'PR'))
                                  + u('SR', NONTRIV, ('AE', 'PR')) + u('S1sim', NONTRIV, ('AE',)) + u('S2sim', NONTRIV, ('NP',))
                                  + u('S1', NONTRIV + NONTRIV_A, ('AE',), ('cxx20',)) + u('S2', NONTRIV, ('NP',), ('cxx20',))
                                  + u('S4', NONTRIV + NONTRIV_A) + u('S4x', NONTRIV)},
            'kinds': K_LIFE | {'VALUES'}, 'crash': crash_any, 'filter': None,
            'technique': 'constructor/assignment/destructor events of the instrumented value type inside every '
                         'operation folded by the lifetime sub-machine of Trace.tla; live objects compared with the '
                         'slots of the held values after every step'},
    'C07': {'level': 'model_checking',
            'units': {'quick': u('S1', ALL) + u('S2', ALL, ('NP',)) + u('S2', ['F_N', 'V_N'], ('AE', 'PR'))
                               + u('S2', ['F_N', 'V_T'], ('K100', 'K010', 'K001')),     # single-trait allocators (shared with C08)
                      'thorough': u('S1', ALL, ('AE', 'NP')) + u('S2', ALL, ('NP', 'AE', 'PR')) + u('SR', ALL, ('AE', 'PR'))
                                  + u('S2sim', ALL, ('NP', 'PR'))
                                  + u('S2', ['F_N', 'V_T'], ('K000', 'K001', 'K010', 'K011', 'K100', 'K101', 'K110', 'K111'))},
            'kinds': K_LEDGER, 'crash': never, 'filter': None,
            'technique': 'allocate/deallocate events of the ledger allocator folded by the ledger sub-machine of '
                         'Trace.tla (size, equal allocator, exactly once); empty ledger required at the end of every '
                         'history'},
    'C08': {'level': 'model_checking',
            'units': {'quick': u('S2', ['F_N', 'V_T'], ('NP', 'PR', 'K100', 'K010', 'K001', 'AE')),
                      'thorough': u('S2', ['F_N', 'V_T'], ('AE', 'K000', 'K001', 'K010', 'K011', 'K100', 'K101', 'K110', 'K111', 'PR'))
                                  + u('S2', ['F_T', 'V_N', 'P_TA', 'M_NA'], ('AE', 'NP', 'PR', 'K100', 'K010', 'K001'))},
            'kinds': K_ALLOC, 'crash': crash_any, 'filter': None,
            'technique': 'two-vector TLA+ model with the std::allocator_traits propagation rules (Cntgs.tla, '
                         'AllocatorPropagation) explored by TLC per trait combination; get_allocator() and the allocator '
                         'instance of every block (at use and at free) judged by Trace.tla'},
    'C09': {'level': 'model_checking',
            'units': {'quick': u('S2', ALL, ('NP',)) + u('S2', ['F_N', 'V_N'], ('AE', 'PR')) + u('S2sim', ['V_N', 'F_T'], ('NP',))
                               + u('S2', ['V_N'], ('NP',), ('cxx20',))
                               + u('S2', CELL_LISTS, ('NP',)),     # handle type: trivially movable, deep copy constructor
                      'thorough': u('S2', ALL, ('NP', 'AE', 'PR')) + u('SR', ALL, ('AE', 'PR')) + u('S2sim', ALL, ('NP', 'PR'))
                                  + u('S2', ['V_N', 'F_N', 'V_T'], ('NP',), ('cxx20',)) + u('S2', CELL_LISTS, ('NP', 'AE', 'PR'))},
            'kinds': K_VALUE, 'crash': crash_any, 'filter': None,
            'technique': 'two-vector TLA+ model (copy/move construction and assignment, swap, self forms, moved-from '
                         'targets, all source/target shapes up to capacity 2) explored by TLC; the projection of BOTH '
                         'vectors judged by Trace.tla after every step (values, independence of bystanders)'},
    'C10': {'level': 'model_checking',
            'units': {'quick': u('S1', ALL) + u('SF', VARYING), 'thorough': u('S1', ALL, ('AE', 'NP')) + u('SF', VARYING)},
            'kinds': K_SEQ | K_MEM | K_STABLE | K_TIGHT | K_LIFE, 'crash': crash_any, 'filter': reserve_related,
            'technique': 'every Reserve step of the TLC-generated histories (no-op and growing, any fill level) '
                         'judged by Trace.tla: contents, capacity, block stability when n <= capacity'},
    'C11': {'level': 'model_checking',
            'units': {'quick': u('S4', ALL + ['P_NM']) + u('S4x', ['F_T', 'F_N', 'V_T', 'P_N', 'F_TA', 'P_NM']) + u('S4', ['F_T', 'V_N'], ('AE',), ('cxx20',)),
                      'thorough': u('S4', ALL + ['P_NM'] + NONTRIV_A) + u('S4x', ALL + ['P_NM']) + u('S4', ['F_T', 'F_N', 'V_T', 'V_N', 'P_TA'], ('AE',), ('cxx20',))},
            'kinds': K_SEQ | K_LIFE | {'PATHS_DISAGREE', 'ITERATOR_ARITHMETIC', 'ALLOCATOR_USED', 'BYSTANDER_CHANGED'},
            'crash': crash_any, 'filter': None,
            'technique': 'TLA+ model of references/iterators as proxies (assignment, move assignment, swap, iter_swap, '
                         'writes through every access path, rotate/reverse/swap_ranges as sequence permutations) '
                         'explored by TLC; after every step all six access paths must project the model state; the '
                         'complete iterator arithmetic/comparison table is compared with integer arithmetic'},
    'C12': {'level': 'model_checking',
            'units': {'quick': u('S3', ['F_T', 'F_N', 'V_T', 'V_N', 'V_TA', 'M_NA', 'P_TA'], ('NP',))
                               + u('S3', ['F_N', 'V_N'], ('AE', 'PR')) + u('S3', ['V_N'], ('NP',), ('cxx20',)),
                      'thorough': u('S3', ALL, ('NP', 'AE', 'PR')) + u('S3', ['V_N', 'F_N', 'V_TA'], ('NP',), ('cxx20',))},
            'kinds': K_VALUE | K_LIFE | K_ALLOC | K_LEDGER | K_ORDER | K_MEM | K_ALIGN | K_TIGHT | {'PATHS_DISAGREE'},
            'crash': crash_any, 'filter': None,
            'technique': 'TLA+ model of stand-alone elements (construction from const / rvalue references, copy, move, '
                         'allocator-extended forms, assignment in both size directions, swap, assignment to and from '
                         'references) explored by TLC with one vector and two elements; projection of the vector and of '
                         'both elements (values, own block, allocator, layout, live objects) judged by Trace.tla after '
                         'every step'},
    'C13': {'level': 'model_checking',
            'units': {'quick': u('S5', S5Q) + u('S5e', ['F_T', 'B_T', 'M_T', 'V_N']) + u('S5', ['F_T', 'V_N'], ('AE',), ('cxx20',)), 'thorough': u('S5', ALL + ['B_T', 'B_TA', 'VB_T', 'Z_T', 'ZP_T'], ('AE', 'NP')) + u('S5e', ALL + ['B_T', 'B_TA', 'VB_T', 'BB_T', 'SB_T'], ('AE', 'NP'))},
            'kinds': {'EQUALITY', 'VECTOR_EQUALITY'}, 'crash': crash_any, 'filter': None,
            'technique': 'TLA+ model of two vectors over a three-valued domain (every pair of contents: equal, one field '
                         'different, strict prefix, empty, different spare capacity) explored by TLC; complete truth tables '
                         'of == and != for all operand kinds recorded under rotating junk patterns and compared with '
                         'content equality as DEFINED in the spec (EqElem/EqElems)'},
    'C14': {'level': 'model_checking',
            'units': {'quick': u('S5', S5Q) + u('S5', ['F_T', 'V_N'], ('AE',), ('cxx20',)), 'thorough': u('S5', ALL + ['B_T', 'B_TA', 'VB_T', 'Z_T', 'ZP_T'], ('AE', 'NP')) + u('S5', ['F_T', 'V_N', 'V_TA', 'P_T'], ('AE',), ('cxx20',))},
            'kinds': {'RELATIONAL_INCONSISTENT', 'VECTOR_RELATIONAL_INCONSISTENT', 'COMPARE_DEPENDS_ON_OPERAND_KIND',
                      'NOT_A_STRICT_ORDER', 'COMPARE_DEPENDS_ON_NON_CONTENT', 'VECTOR_ORDER'},
            'crash': crash_any, 'filter': None,
            'technique': 'same traces as C13; the laws of < (derived operators, strict order on all triples, compatibility '
                         'with equality, independence of operand kind and of non-content, vector order = lexicographical '
                         'extension of the observed element order) are judged over the recorded truth tables by Trace.tla'},
    'C19': {'level': 'model_checking', 'units': {'quick': [], 'thorough': []}, 'kinds': set(), 'crash': never, 'filter': None,
            'technique': 'spec/Readers.tla: interleavings of const operations enumerated by TLC (RaceFree at design level), '
                         'replayed on real threads under ThreadSanitizer; write footprint of every const operation observed '
                         'with mprotect; results judged against the sequential ones'},
    'C20': {'level': 'other', 'units': {'quick': [], 'thorough': []}, 'kinds': set(), 'crash': never, 'filter': None,
            'technique': 'operation alphabet of the TLA+ specification x configuration matrix; each cell (operation '
                         'group, parameter list, allocator kind) is instantiated on the real templates and compiled; '
                         'the compiler decides'},
    'C15': {'level': 'model_checking', 'units': {'quick': [], 'thorough': []}, 'kinds': set(), 'crash': never, 'filter': None,
            'technique': 'spec/Sources.tla: TLC enumerates every applicable (parameter kind, source form, source/stored '
                         'type pair, length) case; one implementation execution per case; stored values, source '
                         'post-state and per-item copy/move counts judged by the specification'},
    'C16': {'level': 'model_checking',
            'units': {'quick': u('S1', ALL) + u('S2', ALL, ('NP',)),
                      'thorough': u('S1', ALL, ('AE', 'NP')) + u('S2', ALL, ('NP', 'AE', 'PR'))},
            'kinds': K_STABLE, 'crash': never, 'filter': None,
            'technique': 'block identity, data_begin, per-object offsets and ledger events of consecutive recorded '
                         'states compared by Trace.tla (JudgeStability/JudgeTransfer)'},
    'C17': {'level': 'fault_enumeration',
            'units': {'quick': u('S7', ['F_T', 'F_N', 'V_T', 'V_N'], ('NP',)) + u('S7', ['F_N', 'V_TA'], ('PR',))
                               + u('S7e', ['F_N', 'V_N', 'V_TA'], ('NP',)) + u('S7', ['V_N'], ('NP',), ('cxx20',)),
                      'thorough': u('S7', ALL, ('NP', 'PR', 'AE')) + u('S7e', ALL, ('NP', 'PR')) + u('S7', NONTRIV, ('NP',), ('cxx20',))},
            'kinds': ANY, 'crash': crash_any, 'filter': None,
            'technique': 'TLA+ model with allocation failure (Cntgs.tla ThrowEff): for every allocating operation in '
                         'every reachable state of the bounded model TLC emits the operation with its 1st..k-th allocation '
                         'failing; the ledger allocator throws at that allocation; the recorded outcome (state of every '
                         'operand, ledger, object lifetimes, a follow-up operation on the operand, destruction of '
                         'everything) is judged by Trace.tla'},
    'C18': {'level': 'model_checking',
            'units': {'quick': u('S1', ALL) + u('S5e', ALL + ['B_T', 'SB_T', 'Z_T']), 'thorough': u('S1', ALL, ('AE', 'NP')) + u('S5e', ALL + ['B_T', 'B_TA', 'VB_T', 'BB_T', 'SB_T'], ('AE', 'NP'))},
            'kinds': ANY, 'crash': crash_any, 'filter': on_empty,
            'technique': 'all model transitions from/to states with no element (fresh, capacity 0, '
                         'default-constructed, emptied) replayed under rotating junk patterns and judged by Trace.tla; '
                         'two-vector model of comparison / copy / move / swap between vectors that hold nothing in '
                         'different ways (S5e: default-constructed, capacity 0, emptied, two FixedSize variants)'},
}


# ------------------------------------------------------------------------------------------------- C20: availability
GROUP_OPS = {
    'COPY': 'copy construction and copy assignment of the vector',
    'PLAIN_ALLOC_CTOR': 'the allocator-extended constructor of an all-plain vector',
    'ELEM': 'construction / copy / move / assignment / swap of ContiguousElement (value_type)',
    'ELEM_SB': 'structured bindings of a ContiguousElement',
    'REF_ASSIGN_ELEM': 'assignment of a ContiguousElement to a reference (ref = element, ref = std::move(element))',
    'ELEM_ASSIGN_REF': 'assignment of a reference to a ContiguousElement (element = ref)',
    'REF_OPS': 'assignment / move assignment / swap / iter_swap between references, rotate, reverse, swap_ranges',
    'CMP': 'comparison operators between vectors, references and elements',
    'API': 'iterator conversions and arrow, const references and their structured bindings, every ContiguousElement '
           'constructor form, get<I> on lvalue / const / rvalue elements, conversions between elements and references, '
           'data()/cbegin()/cend()/front()/back(), range-for over const and mutable vectors',
}
C20_CONFIGS = ALL + ['B_T', 'B_TA', 'VB_T', 'P_TB', 'B_B', 'BB_T', 'SB_T', 'Z_T', 'V_NA']


def run_c20(tier, seed):
    """every documented operation is available for every kind of list: the operation alphabet of the specification
    (Cntgs.tla) x the configuration matrix; a cell is the driver code of that operation group instantiated for that
    list and allocator kind.  Decided by the compiler; the specification contributes the matrix."""
    t0 = time.time()
    cfgs, akinds, _ = vlib.load_configs()
    aks = ['AE', 'NP', 'PR'] if tier == 'quick' else sorted(akinds)
    cells = [(c, ak) for c in C20_CONFIGS for ak in aks]
    pool = ThreadPoolExecutor(8)
    futs = [(c, ak, pool.submit(vlib.build_driver, cfgs[c], ak, akinds[ak], 'asan')) for c, ak in cells]
    bad = []
    ok_cells = 0
    for c, ak, f in futs:
        exe, disabled, diag = f.result()
        if exe is None:
            bad.append((c, ak, 'DRIVER', diag))
        elif disabled:
            for g in disabled:
                bad.append((c, ak, g.replace('-DVERIF_NO_', ''), diag))
            ok_cells += len(vlib.GROUPS) - len(disabled)
        else:
            ok_cells += len(vlib.GROUPS)
    os.makedirs(os.path.join(OUT, 'replay'), exist_ok=True)
    # emplace_back from every source form of spec/Sources.tla (ranges, iterators, raw pointers, views; 11 source/stored
    # type pairs) in both language modes: the C15 drivers are cells of this matrix too
    src_cells = [(conv, b) for conv in sorted(SRC_TYPES) for b in C15_BUILDS]
    src_bad = []
    for (conv, b), (exe, diag) in zip(src_cells, ThreadPoolExecutor(12).map(build_sources, src_cells)):
        if exe is None:
            src_bad.append((conv, b, diag))
            path = os.path.join(OUT, 'replay', 'C20_SOURCES_%s_%s.json' % (conv, b))
            json.dump({'property': 'C20', 'group': 'SOURCES', 'build': b, 'types': SRC_TYPES[conv],
                       'operations': 'emplace_back from every source form (range, iterator, raw pointer, view) for a '
                                     'FixedSize / VaryingSize parameter, %s -> %s' % SRC_TYPES[conv],
                       'compiler_diagnostics': diag[-6000:]}, open(path, 'w'), indent=1)
            print('VIOLATION property=C20 replay=%s' % path)
            print('   not well-formed (%s build): emplace_back from the source forms of spec/Sources.tla, %s -> %s'
                  % ((b,) + SRC_TYPES[conv]))
    seen = set()
    for c, ak, g, diag in bad:
        if (c, g) in seen:
            continue
        seen.add((c, g))
        path = os.path.join(OUT, 'replay', 'C20_%s_%s_%s.json' % (c, ak, g))
        json.dump({'property': 'C20', 'config': c, 'list': vlib.describe_list(cfgs[c]), 'alloc_kind': ak, 'group': g,
                   'operations': GROUP_OPS.get(g, 'the driver itself'), 'compiler_diagnostics': diag[-6000:]},
                  open(path, 'w'), indent=1)
        print('VIOLATION property=C20 replay=%s' % path)
        print('   not well-formed for %s (%s): %s' % (vlib.describe_list(cfgs[c]), ak, GROUP_OPS.get(g, g)))
    ev = {'property_id': 'C20', 'tier': tier, 'seed': seed, 'level': 'other',
          'coverage': {'explanation': 'operation groups of the specification\'s action alphabet (%s) x %d parameter '
                                      'lists x %d allocator kinds: each cell is the driver code of that group '
                                      'instantiated on the real templates and compiled (clang++ -std=c++17); the same '
                                      'binaries then execute the histories of the other checks'
                                      % (', '.join(vlib.GROUPS), len(C20_CONFIGS), len(aks)),
                       'evaluations': len(cells) * len(vlib.GROUPS), 'distinct_nontrivial': ok_cells,
                       'rule': 'a cell = (operation group, parameter list, allocator kind); non-trivial = compiles',
                       'samples': [{'config': c, 'list': vlib.describe_list(cfgs[c]), 'alloc_kind': ak,
                                    'groups': vlib.GROUPS} for c, ak in cells[:3]],
                       'cells_not_well_formed': [[c, ak, g] for c, ak, g, _ in bad],
                       'source_form_cells': len(src_cells),
                       'source_form_cells_not_well_formed': [[conv, b] for conv, b, _ in src_bad]},
          'assumptions': ['C++17, clang++ 14 with libstdc++ 12; the operation groups are those of harness/driver.hpp'],
          'wall_s': round(time.time() - t0, 1), 'violations': len(bad) + len(src_bad)}
    os.makedirs(EVID_DIR, exist_ok=True)
    json.dump(ev, open(os.path.join(EVID_DIR, 'C20.json'), 'w'), indent=1)
    print('C20 %s: %d cells, %d not well-formed, %.0f s' % (tier, len(cells) * len(vlib.GROUPS) + len(src_cells),
                                                            len(bad) + len(src_bad), time.time() - t0))
    return 1 if bad or src_bad else 0


# ------------------------------------------------------------------------------------------------- C15: source forms
SRC_TYPES = {'id': ('std::uint32_t', 'std::uint32_t'), 'widen': ('std::uint16_t', 'std::uint32_t'),
             'sign': ('std::int32_t', 'std::uint32_t'), 'bool': ('std::uint8_t', 'bool'),
             'u2f': ('std::uint32_t', 'float'), 'f2u': ('float', 'std::uint32_t'), 'cls3': ('vsrc::A4', 'vsrc::B4'),
             'op1': ('vsrc::C4', 'vsrc::D4'), 'enum': ('vsrc::E32', 'std::uint32_t'), 'cnt': ('vsrc::Cnt', 'vsrc::Cnt'),
             'str': ('std::string', 'std::string')}
FORM_NAMES = {1: 'std::vector lvalue', 2: 'std::vector rvalue', 3: 'std::array lvalue', 4: 'C array lvalue',
              5: 'std::list lvalue', 6: 'std::list rvalue', 7: 'generated single-pass range', 8: 'raw pointer',
              9: 'std::vector iterator', 10: 'std::list iterator', 11: 'std::move_iterator', 12: 'std::reverse_iterator over std::vector',
              13: 'non-owning contiguous view (std::span) lvalue', 14: 'non-owning contiguous view (std::span) rvalue',
              15: 'non-owning view over a std::list (std::ranges::subrange) rvalue'}


def src_cases():
    key = vlib.sha('srccases', vlib.spec_hash(['Sources.tla']))
    d = os.path.join(vlib.BUILD, 'sources', key)
    res = os.path.join(d, 'cases.json')
    with vlib.Lock(d + '.lock'):
        if os.path.exists(res):
            return json.load(open(res))
        vlib.copy_spec(d, ['Sources.tla'])
        with open(os.path.join(d, 'Gen.cfg'), 'w') as f:
            f.write('INIT GenInit\nNEXT GenNext\nINVARIANT EmitCase\nCHECK_DEADLOCK FALSE\n')
        with open(os.path.join(d, 'trace.ndjson'), 'w') as f:
            f.write('{"e":"none"}\n')
        rc, out = vlib.run_tlc(d, 'Sources.tla', 'Gen.cfg', env={'TRACE': os.path.join(d, 'trace.ndjson')})
        if rc != 0 or 'No error has been found' not in out:
            open(os.path.join(d, 'tlc.out'), 'w').write(out)
            raise vlib.Infra('Sources.tla generator failed: %s/tlc.out' % d)
        cases = [json.loads(ln[len('<<"CASE", "'):-3].replace('\\"', '"')) for ln in out.splitlines()
                 if ln.startswith('<<"CASE", "')]
        st, _ = vlib.tlc_stats(out)
        r = {'cases': cases, 'states': st}
        json.dump(r, open(res, 'w'))
        return r


C15_BUILDS = ('asan', 'cxx20')   # the C++17 and the C++20 code paths of detail/memory.hpp (std::ranges::uninitialized_*)


def build_sources(cb):
    conv, build = cb
    s, t = SRC_TYPES[conv]
    src = '#include "sources.hpp"\nint main(int c, char** v) { return vsrc::sources_main<%s, %s>("%s", c, v); }\n' % (s, t, conv)
    key = vlib.sha('sources', src, build, vlib.repo_hash(), open(os.path.join(vlib.HARNESS, 'sources.hpp')).read())
    d = os.path.join(vlib.BUILD, 'bin', key)
    exe = os.path.join(d, 'sources')
    with vlib.Lock(d + '.lock'):
        if os.path.exists(exe):
            return exe, ''
        os.makedirs(d, exist_ok=True)
        open(os.path.join(d, 'tu.cpp'), 'w').write(src)
        r = subprocess.run(vlib.BUILDS[build] + ['-I', vlib.HARNESS, '-I', os.path.join(vlib.REPO, 'src'),
                                                 os.path.join(d, 'tu.cpp'), '-o', exe], capture_output=True, text=True)
        if r.returncode != 0:
            return None, r.stderr[-6000:]
        return exe, ''


def run_c15(tier, seed):
    t0 = time.time()
    gen = src_cases()
    cases = gen['cases']
    pool = ThreadPoolExecutor(12)
    convs = [(c, b) for c in sorted(SRC_TYPES) for b in C15_BUILDS]
    exes = dict(zip(convs, pool.map(build_sources, convs)))
    verdicts, infra, ran, states = [], [], 0, gen['states']

    def one(cb):
        conv, build = cb
        exe, diag = exes[cb]
        mine = [c for c in cases if c['c'] == conv]
        if exe is None:
            return cb, None, diag, len(mine), 0
        d = os.path.join(vlib.BUILD, 'srcruns', vlib.sha(exe, json.dumps(mine), vlib.spec_hash(['Sources.tla'])))
        res = os.path.join(d, 'result.json')
        with vlib.Lock(d + '.lock'):
            if os.path.exists(res):
                return (cb,) + tuple(json.load(open(res)))
            os.makedirs(d, exist_ok=True)
            with open(os.path.join(d, 'plan.txt'), 'w') as f:
                for c in mine:
                    f.write('%d %d %d\n' % (c['varying'], c['f'], c['n']))
            env = dict(os.environ, ASAN_OPTIONS='symbolize=0:detect_leaks=0:print_summary=0')
            r = subprocess.run(['timeout', '600', exe, os.path.join(d, 'plan.txt'), os.path.join(d, 'trace.ndjson')],
                               env=env, capture_output=True, text=True)
            if r.returncode != 0:
                raise vlib.Infra('sources driver failed: ' + r.stderr[-800:])
            vlib.copy_spec(d, ['Sources.tla'])
            with open(os.path.join(d, 'Trace.cfg'), 'w') as f:
                f.write('INIT TraceInit\nNEXT TraceNext\nPOSTCONDITION Consumed\nCHECK_DEADLOCK FALSE\n')
            rc, out = vlib.run_tlc(d, 'Sources.tla', 'Trace.cfg', env={'TRACE': os.path.join(d, 'trace.ndjson')})
            if rc != 0 or 'No error has been found' not in out:
                open(os.path.join(d, 'tlc.out'), 'w').write(out)
                raise vlib.Infra('Sources.tla trace validation failed: %s/tlc.out' % d)
            vs = [json.loads(m.group(1).replace('\\"', '"')) for m in (vlib.VERDICT_RE.match(x) for x in out.splitlines()) if m]
            st, _ = vlib.tlc_stats(out)
            json.dump([vs, '', len(mine), st], open(res, 'w'))
            return cb, vs, '', len(mine), st
    results = list(pool.map(one, convs))
    nviol = 0
    os.makedirs(os.path.join(OUT, 'replay'), exist_ok=True)
    for (conv, build), vs, diag, n, st in results:
        states += st
        if vs is None:
            path = os.path.join(OUT, 'replay', 'C15_%s_%s_build.json' % (conv, build))
            json.dump({'property': 'C15', 'conv': conv, 'build': build, 'types': SRC_TYPES[conv], 'compiler_diagnostics': diag}, open(path, 'w'), indent=1)
            infra.append('the C15 driver (%s) for %s -> %s does not compile (diagnostics: %s); availability is judged by C20'
                         % (build, SRC_TYPES[conv][0], SRC_TYPES[conv][1], path))
            continue
        ran += n
        seen = set()
        for v in vs:
            if 'DRIVER_PRECONDITION' in v['kinds']:
                infra.append('case outside the applicable set: %s' % v['case'])
                continue
            sig = (v['case']['conv'], build, v['case']['form'], v['case']['varying'], tuple(sorted(v['kinds'])))
            nviol += 1
            if sig in seen:
                continue
            seen.add(sig)
            path = os.path.join(OUT, 'replay', 'C15_%s_%s_f%d_v%d_n%d.json' % (conv, build, v['case']['form'], v['case']['varying'], v['case']['n']))
            json.dump({'property': 'C15', 'build': build, 'case': v['case'], 'source_form': FORM_NAMES[v['case']['form']],
                       'types': SRC_TYPES[conv], 'kinds': v['kinds']}, open(path, 'w'), indent=1)
            print('VIOLATION property=C15 replay=%s' % path)
            print('   %s -> %s from %s, %s, n=%d: %s' % (SRC_TYPES[conv][0], SRC_TYPES[conv][1], FORM_NAMES[v['case']['form']],
                                                       'VaryingSize' if v['case']['varying'] else 'FixedSize', v['case']['n'], sorted(v['kinds'])))
    ev = {'property_id': 'C15', 'tier': tier, 'seed': seed, 'level': 'model_checking',
          'coverage': {'states': states, 'transitions': len(cases) + ran, 'traces_validated_against_impl': ran - nviol if ran >= nviol else 0,
                       'samples': cases[:2] + cases[len(cases) // 2:len(cases) // 2 + 2],
                       'cases_enumerated_by_tlc': len(cases), 'cases_executed': ran, 'exhaustive': True,
                       'explanation': 'every applicable (parameter kind, source form, type pair, length 0..3) of spec/Sources.tla '
                                      'executed on the real templates; stored values, source post-state and per-item copy/move '
                                      'counts judged by the same module'},
          'assumptions': ['type pairs and source forms are those of spec/Sources.tla / harness/sources.hpp',
                          'clang++ -std=c++17 and g++ -std=c++20 ASan/UBSan builds (the C++20 build takes the std::ranges paths of detail/memory.hpp), std::allocator'],
          'wall_s': round(time.time() - t0, 1), 'violations': nviol}
    os.makedirs(EVID_DIR, exist_ok=True)
    json.dump(ev, open(os.path.join(EVID_DIR, 'C15.json'), 'w'), indent=1)
    if infra:
        for m in infra[:10]:
            print('INFRASTRUCTURE:', m)
        return 3
    print('C15 %s: %d cases enumerated by TLC, %d executed, %d divergent, %.0f s' % (tier, len(cases), ran, nviol, time.time() - t0))
    return 1 if nviol else 0


# ------------------------------------------------------------------------------------------------- C19: readers
def reader_schedules(nthreads, k):
    key = vlib.sha('readers', str(nthreads), str(k), vlib.spec_hash(['Readers.tla']))
    d = os.path.join(vlib.BUILD, 'readers', key)
    res = os.path.join(d, 'sched.json')
    with vlib.Lock(d + '.lock'):
        if os.path.exists(res):
            return json.load(open(res))
        vlib.copy_spec(d, ['Readers.tla'])
        with open(os.path.join(d, 'Gen.cfg'), 'w') as f:
            f.write('CONSTANTS\n Threads = %s\n K = %d\nINIT Init\nNEXT Next\nINVARIANT RaceFree\nINVARIANT EmitSchedule\n'
                    'CHECK_DEADLOCK FALSE\n' % (vlib.tla_set(list(range(1, nthreads + 1))), k))
        open(os.path.join(d, 't.ndjson'), 'w').write('{"e":"setup","size":1,"cap":1,"first":[1]}\n')
        rc, out = vlib.run_tlc(d, 'Readers.tla', 'Gen.cfg', env={'TRACE': os.path.join(d, 't.ndjson')}, workers=4)
        if rc != 0 or 'No error has been found' not in out:
            open(os.path.join(d, 'tlc.out'), 'w').write(out)
            raise vlib.Infra('Readers.tla generator failed: %s/tlc.out' % d)
        sch = [json.loads(ln[len('<<"SCHED", "'):-3].replace('\\"', '"')) for ln in out.splitlines()
               if ln.startswith('<<"SCHED", "')]
        st, gen = vlib.tlc_stats(out)
        r = {'schedules': sch, 'states': st, 'transitions': gen}
        json.dump(r, open(res, 'w'))
        return r


def build_readers(kind):
    src = os.path.join(vlib.HARNESS, 'readers.cpp')
    flags = {'plain': ['g++', '-std=c++17', '-O1', '-g', '-pthread'],
             'tsan': ['clang++', '-std=c++17', '-O1', '-g', '-fsanitize=thread', '-pthread']}[kind]
    key = vlib.sha('readers', kind, open(src).read(), vlib.repo_hash())
    d = os.path.join(vlib.BUILD, 'bin', key)
    exe = os.path.join(d, 'readers')
    with vlib.Lock(d + '.lock'):
        if os.path.exists(exe):
            return exe
        os.makedirs(d, exist_ok=True)
        r = subprocess.run(flags + ['-I', os.path.join(vlib.REPO, 'src'), src, '-o', exe], capture_output=True, text=True)
        if r.returncode != 0:
            raise vlib.Infra('readers driver does not compile: ' + r.stderr[-1500:])
        return exe


def run_c19(tier, seed):
    t0 = time.time()
    gen = reader_schedules(2, 2)
    scheds = gen['schedules']
    if tier == 'quick':
        scheds = scheds[seed % 3::3]
    plain, tsan = build_readers('plain'), build_readers('tsan')
    d = os.path.join(vlib.BUILD, 'readers_run', vlib.sha(plain, tsan, tier, str(seed), vlib.spec_hash(['Readers.tla'])))
    shutil.rmtree(d, ignore_errors=True)
    os.makedirs(d)
    sf = os.path.join(d, 'sched.txt')
    with open(sf, 'w') as f:
        for sc in scheds:
            f.write(' '.join('%d %s' % (t, op) for t, op in sc) + '\n')
    nthreads_free, rounds = (4, 300) if tier == 'quick' else (16, 2000)
    jobs = []
    for ty in ('fixed', 'varying', 'string'):
        jobs.append((ty, 'prot', [plain, 'prot', ty, os.path.join(d, 'prot_%s.ndjson' % ty)]))
        jobs.append((ty, 'sched', [tsan, 'sched', ty, sf, os.path.join(d, 'sched_%s.ndjson' % ty)]))
        jobs.append((ty, 'free', [tsan, 'free', ty, str(nthreads_free), str(rounds), os.path.join(d, 'free_%s.ndjson' % ty)]))
    env = dict(os.environ, TSAN_OPTIONS='halt_on_error=1:exitcode=66:report_signal_unsafe=0')
    vlib.copy_spec(d, ['Readers.tla'])
    with open(os.path.join(d, 'Trace.cfg'), 'w') as f:
        f.write('CONSTANTS\n Threads = {1, 2}\n K = 2\nINIT TraceInit\nNEXT TraceNext\nPOSTCONDITION Consumed\nCHECK_DEADLOCK FALSE\n')

    def one(job):
        ty, mode, cmd = job
        tr = cmd[-1]
        r = subprocess.run(['timeout', '900'] + cmd, env=env, capture_output=True, text=True)
        race = ''
        if r.returncode == 66 or 'ThreadSanitizer' in r.stderr:
            race = r.stderr[:3000]
            with open(tr, 'a') as f:
                f.write('{"e":"race","op":"tsan","arg":0,"res":0}\n')
        elif r.returncode != 0:
            with open(tr, 'a') as f:
                f.write('{"e":"crash","op":"rc%d","arg":0,"res":0}\n' % r.returncode)
        nlines = sum(1 for _ in open(tr))
        wd = tr + '.d'
        vlib.copy_spec(wd, ['Readers.tla'])
        shutil.copy(os.path.join(d, 'Trace.cfg'), wd)
        rc, out = vlib.run_tlc(wd, 'Readers.tla', 'Trace.cfg', env={'TRACE': tr})
        if rc != 0 or 'No error has been found' not in out:
            open(tr + '.tlc.out', 'w').write(out)
            raise vlib.Infra('Readers.tla trace validation failed: %s.tlc.out' % tr)
        vs = [json.loads(m.group(1).replace('\\"', '"')) for m in (vlib.VERDICT_RE.match(x) for x in out.splitlines()) if m]
        st, _ = vlib.tlc_stats(out)
        shutil.rmtree(wd, ignore_errors=True)
        return ty, mode, vs, race, nlines, st
    pool = ThreadPoolExecutor(9)
    results = list(pool.map(one, jobs))
    nviol = 0
    os.makedirs(os.path.join(OUT, 'replay'), exist_ok=True)
    states = gen['states']
    events = 0
    for ty, mode, vs, race, nlines, st in results:
        states += st
        events += nlines - 1
        seen = set()
        for v in vs:
            sig = (v['n'], tuple(sorted(v['kinds'])))
            nviol += 1
            if sig in seen:
                continue
            seen.add(sig)
            path = os.path.join(OUT, 'replay', 'C19_%s_%s_%s.json' % (ty, mode, v['n']))
            json.dump({'property': 'C19', 'vector_type': ty, 'mode': mode, 'verdict': v,
                       'schedule': scheds[v['h'] - 1] if mode == 'sched' and 0 < v['h'] <= len(scheds) else None,
                       'thread_sanitizer_report': race}, open(path, 'w'), indent=1)
            print('VIOLATION property=C19 replay=%s' % path)
            print('   %s vector, %s leg, operation %s: %s' % (ty, mode, v['n'], sorted(v['kinds'])))
    ev = {'property_id': 'C19', 'tier': tier, 'seed': seed, 'level': 'model_checking',
          'coverage': {'states': states, 'transitions': gen['transitions'] + events,
                       'traces_validated_against_impl': 3 * len(scheds) + 6 if nviol == 0 else 0,
                       'samples': [scheds[0], scheds[len(scheds) // 2]],
                       'interleavings_enumerated_by_tlc': len(gen['schedules']), 'interleavings_replayed_per_vector_type': len(scheds),
                       'free_running': {'threads': nthreads_free, 'rounds': rounds}, 'events_judged': events,
                       'explanation': 'Readers.tla: all interleavings of 2 threads x 2 const operations (8 operations) '
                                      'enumerated by TLC and checked RaceFree at design level; each replayed on real threads '
                                      'under ThreadSanitizer with relaxed-atomic turn taking on three vector types; every '
                                      'operation also executed with the shared vector, its blocks and a shared element '
                                      'mprotect()ed read-only; free-running threads; all results compared with the sequential ones'},
          'assumptions': ['TSan is dynamic: races are reported only on executed accesses', 'std::string payloads live on the '
                          'global heap and are not write-protected in the mprotect leg'],
          'wall_s': round(time.time() - t0, 1), 'violations': nviol}
    os.makedirs(EVID_DIR, exist_ok=True)
    json.dump(ev, open(os.path.join(EVID_DIR, 'C19.json'), 'w'), indent=1)
    shutil.rmtree(d, ignore_errors=True)
    print('C19 %s: %d interleavings x 3 vector types under TSan, mprotect leg, %d-thread free run; %d events judged, %d divergent, %.0f s'
          % (tier, len(scheds), nthreads_free, events, nviol, time.time() - t0))
    return 1 if nviol else 0


# ------------------------------------------------------------------------------------------------- known findings
def load_findings():
    p = os.path.join(VERIF, 'known_findings.json')
    if not os.path.exists(p):
        return {'findings': [], 'fixed': []}
    return json.load(open(p))


def cfg_matches(cfg, scope, akind=None):
    if scope.get('storage_alignment_gt1') is not None:
        if (max(p['al'] for p in cfg['P']) > 1) != scope['storage_alignment_gt1']:
            return False
    if scope.get('ak') and akind is not None:
        if any(akind[k] != v for k, v in scope['ak'].items()):
            return False
    hasv = any(p['k'] == 'varying' for p in cfg['P'])
    nontriv = any(p['triv'] == 0 for p in cfg['P'])
    if 'configs' in scope and cfg['id'] not in scope['configs']:
        return False
    if scope.get('has_varying') is not None and scope['has_varying'] != hasv:
        return False
    if scope.get('has_nontrivial') is not None and scope['has_nontrivial'] != nontriv:
        return False
    return True


def kinds_match(v, expect):
    if expect.get('n') and v['n'] not in expect['n']:
        return False
    want = expect.get('kinds_any', [])
    return any(any(k.startswith(w) for k in v['kinds']) for w in want)


def active_findings(cfgs, akinds, seed, pool):
    """a finding is active only while its witness still diverges in the expected way on the tree under test"""
    act = []
    for f in load_findings()['findings']:
        w = f['witness']
        cfg = cfgs[w['config']]
        exe, disabled, diag = vlib.build_driver(cfg, w['ak'], akinds[w['ak']], 'asan')
        if exe is None:
            continue
        d = os.path.join(vlib.BUILD, 'witness', vlib.sha(exe, json.dumps(w), vlib.spec_hash(vlib.TRACE_SPECS)))
        res = os.path.join(d, 'result.json')
        with vlib.Lock(d + '.lock'):
            if os.path.exists(res):
                vs = json.load(open(res))
            else:
                os.makedirs(d, exist_ok=True)
                plan = os.path.join(d, 'plan.txt')
                vlib.write_single_plan(plan, 1, w['ops'])
                trace = os.path.join(d, 'trace.ndjson')
                vlib.run_driver(exe, plan, trace, w.get('seed', 1), w.get('junk', 2), 'asan')
                vlib.copy_spec(d, vlib.TRACE_SPECS)
                ok, vs, _, out = vlib.validate_chunk(d, trace)
                if not ok:
                    raise vlib.Infra('witness of %s did not validate: %s' % (f['id'], out[-1500:]))
                json.dump(vs, open(res, 'w'))
        if any(kinds_match(v, f['expect']) for v in vs):
            act.append(f)
    return act


# ------------------------------------------------------------------------------------------------- running
def run_units(units, tier, seed, cfgs, akinds, findings):
    tlcpool = ThreadPoolExecutor(vlib.NCPU)
    upool = ThreadPoolExecutor(12)
    futs = []
    for scen, c, ak, build in units:
        cfg = cfgs[c] if isinstance(c, str) else c
        cuts = sorted({f['scope']['cut'] for f in findings if f['scope'].get('cut') and cfg_matches(cfg, f['scope'], akinds[ak])
                       and (not f['scope'].get('scenarios') or scen in f['scope']['scenarios'])})
        name = c if isinstance(c, str) else vlib.describe_list(c)
        futs.append(((scen, name, ak, build, cuts),
                     upool.submit(vlib.run_unit, cfg, ak, akinds[ak], scen, tier, seed, tlcpool, build, -1, cuts)))
    results = []
    for key, f in futs:
        results.append((key, f.result()))
    tlcpool.shutdown()
    upool.shutdown()
    return results


def relevant(pid, v, unit):
    p = PROPS[pid]
    if p['filter'] and not p['filter'](v, unit):
        return False
    ks = set(v['kinds'])
    if p['kinds'] is ANY or ks & p['kinds']:
        return True
    if p['crash'](v, unit):
        return True
    return False


def write_replay(pid, key, r, v):
    os.makedirs(os.path.join(OUT, 'replay'), exist_ok=True)
    scen, c, ak, build, cuts = key
    cid = c if len(c) < 12 else 'U' + vlib.sha(c)[:10]
    path = os.path.join(OUT, 'replay', '%s_%s_%s_%s_h%d.json' % (pid, scen, cid, ak, v['h']))
    json.dump({'property': pid, 'scenario': scen, 'config': c, 'alloc_kind': ak, 'build': build, 'seed': r['seed'],
               'history': v['ops'], 'first_divergence': {'step': v['s'], 'op': v['n'], 'kinds': v['kinds'],
                                                         'crash': v.get('crashmsg', '')}},
              open(path, 'w'), indent=1)
    return path


def run_property(pid, tier, seed):
    if pid == 'C20':
        return run_c20(tier, seed)
    if pid == 'C15':
        return run_c15(tier, seed)
    if pid == 'C19':
        return run_c19(tier, seed)
    t0 = time.time()
    vlib.prune_cache()
    cfgs, akinds, _ = vlib.load_configs()
    prop = PROPS[pid]
    pool0 = ThreadPoolExecutor(4)
    findings = active_findings(cfgs, akinds, seed, pool0)
    units = prop['units'][tier]
    units = units.all() if isinstance(units, Units) else units
    results = run_units(units, tier, seed, cfgs, akinds, findings)
    violations = []
    infra = []
    lost = []
    for key, r in results:
        if r.get('build_failed'):
            infra.append('driver for %s/%s does not compile on this tree: %s' % (key[1], key[2], r['diag'][-600:]))
            continue
        if r.get('disabled'):
            lost.append('%s/%s: operations not available on this tree (%s)' % (key[1], key[2], ' '.join(r['disabled'])))
        if r['meta'].get('ops_never_taken') and not key[4]:
            infra.append('vacuous model for %s %s: operations never taken %s' % (key[0], key[1], r['meta']['ops_never_taken']))
        for v in r['unconfirmed']:
            infra.append('divergence not reproduced in isolation: %s %s h=%d %s' % (key[0], key[1], v['h'], v['kinds']))
        for v in r['verdicts']:
            if 'DRIVER_PRECONDITION' in v['kinds']:
                infra.append('generator left the documented preconditions: %s %s h=%d' % (key[0], key[1], v['h']))
                continue
            if relevant(pid, v, key):
                violations.append((key, r, v))
    for f in findings:
        if pid in f['property']:
            print('KNOWN-FINDING: property=%s %s [%s]' % (pid, f['what'], f['id']))
    # one VIOLATION line per distinct (configuration, operation, judgements) signature
    seen = set()
    nviol = 0
    for key, r, v in violations:
        sig = (key[0], key[1], key[2], v['n'], tuple(sorted(v['kinds'])))
        if sig in seen:
            continue
        seen.add(sig)
        nviol += 1
        path = write_replay(pid, key, r, v)
        print('VIOLATION property=%s replay=%s' % (pid, path))
        print('   %s %s/%s step %d %s: %s %s' % (key[0], key[1], key[2], v['s'], v['n'], sorted(v['kinds']),
                                               v.get('crashmsg', '')[:160]))
    write_evidence(pid, tier, seed, results, findings, len(violations), lost, time.time() - t0)
    if infra:
        for m in infra[:20]:
            print('INFRASTRUCTURE:', m)
        return 3
    for m in lost:
        print('NOTE lost coverage:', m)
    print('%s %s: %d units, %d histories validated, %d divergent histories routed to this property, %.0f s' % (
        pid, tier, len(results), sum(r['accepted'] for _, r in results), len(violations), time.time() - t0))
    return 1 if violations else 0


def write_evidence(pid, tier, seed, results, findings, nviol, lost, wall):
    prop = PROPS[pid]
    os.makedirs(EVID_DIR, exist_ok=True)
    good = [(k, r) for k, r in results if not r.get('build_failed')]
    per_action = {}
    for k, r in good:
        for a, n in r['meta'].get('per_action_plan', {}).items():
            per_action[a] = per_action.get(a, 0) + n
    samples = []
    for k, r in good[:3] + good[-2:]:
        samples.append({'scenario': k[0], 'config': k[1], 'alloc_kind': k[2], 'history': r.get('sample', [])})
    cov = {
        'states': sum(r['meta']['states'] for _, r in good) + sum(r['states'] for _, r in good),
        'transitions': sum(r['meta']['transitions'] for _, r in good) + sum(max(0, r['states'] - 1) for _, r in good),
        'traces_validated_against_impl': sum(r['accepted'] for _, r in good),
        'samples': samples,
        'model_states': sum(r['meta']['states'] for _, r in good),
        'model_transitions': sum(r['meta']['transitions'] for _, r in good),
        'model_transitions_not_covered_by_histories': sum(r['meta']['uncovered'] for _, r in good),
        'histories_executed': sum(r['histories'] for _, r in good),
        'operations_executed': sum(r['meta']['ops'] for _, r in good),
        'trace_lines_validated': sum(max(0, r['states'] - 1) for _, r in good),
        'divergent_histories_total': sum(len(r['verdicts']) for _, r in good),
        'per_action_operations': per_action,
        'units': [{'scenario': k[0], 'config': k[1], 'alloc_kind': k[2], 'build': k[3], 'cuts': k[4],
                   'model_states': r['meta']['states'], 'model_transitions': r['meta']['transitions'],
                   'histories': r['histories'], 'accepted': r['accepted']} for k, r in good],
        'judgements_routed_to_this_property': sorted(prop['kinds']) if prop['kinds'] is not None else ['(every judgement of Trace.tla, on steps selected by the filter)'],
        'known_findings_active': [f['id'] for f in findings],
        'lost_coverage': lost,
        'exhaustive': False,
        'explanation': prop['technique'],
    }
    if prop['level'] == 'fault_enumeration':
        fired = sum(r.get('faults', {}).get('fired', 0) for _, r in good)
        armed = sum(r.get('faults', {}).get('armed', 0) for _, r in good)
        distinct = {(k[1], k[2], tuple(x)) for k, r in good for x in r.get('faults', {}).get('distinct_fired', [])}
        cov.update({'evaluations': armed, 'distinct_nontrivial': len(distinct),
                    'rule': 'one evaluation = one operation executed with its k-th allocation armed to fail, in a state '
                            'reached by a TLC-generated history; non-trivial and distinct = the failure actually fired, '
                            'counted once per (parameter list, allocator kind, operation, failing allocation index)',
                    'faults_fired': fired})
    ev = {'property_id': pid, 'tier': tier, 'seed': seed, 'level': prop['level'], 'coverage': cov,
          'assumptions': ['bounded model: constants of the scenario (see units / tools/vlib.py SCENARIOS)',
                          'only the instantiated parameter lists of harness/configs.json are bound to the code',
                          'ASan/UBSan build of the driver (clang++ -O1), value types of harness/values.hpp'],
          'wall_s': round(wall, 1), 'violations': nviol}
    json.dump(ev, open(os.path.join(EVID_DIR, pid + '.json'), 'w'), indent=1)


def replay(pid, path):
    rp = json.load(open(path))
    cfgs, akinds, _ = vlib.load_configs()
    cfg = cfgs[rp['config']]
    exe, disabled, diag = vlib.build_driver(cfg, rp['alloc_kind'], akinds[rp['alloc_kind']], rp.get('build', 'asan'))
    if exe is None:
        raise vlib.Infra('driver does not build: ' + diag[-800:])
    d = os.path.join(vlib.BUILD, 'replay', vlib.sha(path, str(time.time())))
    os.makedirs(d)
    plan = os.path.join(d, 'plan.txt')
    vlib.write_single_plan(plan, 1, rp['history'])
    trace = os.path.join(d, 'trace.ndjson')
    vlib.run_driver(exe, plan, trace, rp.get('seed', 1), -1, rp.get('build', 'asan'), symbolize=True)
    vlib.copy_spec(d, vlib.TRACE_SPECS)
    ok, vs, _, out = vlib.validate_chunk(d, trace)
    if not ok:
        raise vlib.Infra('replay did not validate: ' + out[-1500:])
    for ln in open(trace):
        e = json.loads(ln)
        if e['e'] in ('op', 'crash', 'skip'):
            print('step %s %s %s' % (e.get('s'), e.get('n'), e.get('a', e.get('kind', ''))))
    shutil.rmtree(d, ignore_errors=True)
    bad = [v for v in vs if relevant(pid, v, None)]
    for v in vs:
        print('VERDICT', v)
    if bad:
        print('VIOLATION property=%s replay=%s' % (pid, path))
        return 1
    print('replay accepted by Trace.tla')
    return 0

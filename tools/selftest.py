#!/usr/bin/env python3
"""Binding self-test: a recorded GOOD trace is accepted by spec/Trace.tla; each single corruption of it is rejected
with the judgement one expects.  Shows that the trace specification constrains every recorded field and is not
satisfied by length alone."""
import copy, json, os, sys
sys.path.insert(0, os.path.dirname(os.path.abspath(__file__)))
import vlib

OPS = ['Construct 1 3 24 1', 'Emplace 1 1 0 1 0', 'Emplace 1 2 0 2 0', 'Reserve 1 4 24', 'Emplace 1 3 0 0 0', 'Erase 1 0',
       'CopyConstruct 2 1', 'PopBack 2', 'MoveAssign 1 2', 'Destroy 2']


def validate(d, lines):
    tr = os.path.join(d, 'trace.ndjson')
    with open(tr, 'w') as f:
        for ln in lines:
            f.write(json.dumps(ln, separators=(',', ':')) + '\n')
    ok, vs, st, out = vlib.validate_chunk(d, tr)
    return ok, vs, out


def main():
    cfgs, akinds, _ = vlib.load_configs()
    exe, dis, diag = vlib.build_driver(cfgs['V_N'], 'NP', akinds['NP'], 'asan')
    d = os.path.join(vlib.BUILD, 'selftest')
    os.makedirs(d, exist_ok=True)
    vlib.write_single_plan(d + '/plan.txt', 1, ['O ' + o for o in OPS])
    vlib.run_driver(exe, d + '/plan.txt', d + '/good.ndjson', 1, 2, 'asan')
    vlib.copy_spec(d, vlib.TRACE_SPECS)
    good = [json.loads(ln) for ln in open(d + '/good.ndjson')]
    ok, vs, out = validate(d, good)
    print('good trace: %d lines, validated=%s, verdicts=%d' % (len(good), ok, len(vs)))
    if not ok or vs:
        print(out[-2000:]); return 1
    opi = [i for i, e in enumerate(good) if e['e'] == 'op']

    def obs(t, k, v=1):
        return [o for o in t[opi[k]]['obs'] if o['v'] == v][0]
    muts = []

    def m(name, expect, fn):
        t = copy.deepcopy(good)
        fn(t)
        muts.append((name, expect, t))
    m('size + 1 after the 2nd emplace', 'SIZE', lambda t: obs(t, 2).__setitem__('size', 3))
    m('capacity - 1 after reserve', 'CAP', lambda t: obs(t, 3).__setitem__('cap', 3))
    m('one stored value changed', 'VALUES', lambda t: obs(t, 2)['P'][0][1]['f'][1]['v'].__setitem__(0, 7))
    m('one field offset + 1', 'TIGHT', lambda t: obs(t, 2)['P'][0][1]['f'][2].__setitem__('o', obs(t, 2)['P'][0][1]['f'][2]['o'] + 1))
    m('span count + 1', 'SHAPE', lambda t: obs(t, 2)['P'][0][1]['f'][1].__setitem__('n', 3))
    m('data_end beyond the block', 'DATA_RANGE', lambda t: obs(t, 2).__setitem__('de', obs(t, 2)['bsz'] + 8))
    m('block id changes on emplace', 'BLOCK_CHANGED', lambda t: obs(t, 4).__setitem__('blk', 77))
    m('get_allocator() reports the other instance', 'GET_ALLOCATOR', lambda t: obs(t, 2).__setitem__('al', 2))
    m('one access path disagrees', 'PATHS_DISAGREE', lambda t: (obs(t, 2)['P'].append(copy.deepcopy(obs(t, 2)['P'][0][:1])), obs(t, 2)['pn'].__setitem__(3, 2)))
    m('erase returns the wrong iterator', 'RETURNED_ITERATOR', lambda t: t[opi[5]].__setitem__('ret', 1))
    m('a free event dropped', 'LEAK', lambda t: t[opi[3]].__setitem__('sub', [s for s in t[opi[3]]['sub'] if not (s[0] == 'free' and s[1] == 1)]))
    m('a free event duplicated', 'FREE_UNKNOWN_OR_TWICE', lambda t: t[opi[3]]['sub'].append([s for s in t[opi[3]]['sub'] if s[0] == 'free'][0]))
    m('a destructor event duplicated', 'DTOR_OF_DEAD', lambda t: t[opi[7]]['sub'].append([s for s in t[opi[7]]['sub'] if s[0] == 'dtor'][0]))
    m('a constructor event dropped', 'LIVE_OBJECTS', lambda t: t[opi[1]].__setitem__('sub', t[opi[1]]['sub'][1:]))
    m('reserve allocates on a no-op', 'FOOTPRINT', lambda t: obs(t, 3).__setitem__('mc', obs(t, 3)['mc'] + 64))
    m('copy shares the source block', 'SHARED_BLOCK', lambda t: obs(t, 6, 2).__setitem__('blk', obs(t, 6, 1)['blk']))
    m('bystander vector changes', 'BYSTANDER_CHANGED', lambda t: obs(t, 7, 1).__setitem__('mc', 1))
    m('an operation line removed', 'SIZE', lambda t: t.pop(opi[2]))
    bad = 0
    for name, expect, t in muts:
        ok, vs, out = validate(d, t)
        kinds = sorted({k for v in vs for k in v['kinds']})
        hit = ok and any(expect in k for k in kinds)
        print('%-45s expect %-24s -> %s %s' % (name, expect, 'REJECTED' if hit else 'NOT REJECTED AS EXPECTED', kinds[:6]))
        bad += 0 if hit else 1
    print('%d corruptions, %d not rejected as expected' % (len(muts), bad))
    return 1 if bad else 0


sys.exit(main())

#!/bin/bash
# seed_verify.sh <ID> [<suffix>] : confirm a seeded change independently (tests pass with it, demo fails with it and
# passes without it), in its scratch worktree /tmp/wt_<ID><suffix> with deliverables in /tmp/seed_<ID><suffix>
ID=$1; SFX=$2; WT=/tmp/wt_$ID$SFX; SD=/tmp/seed_$ID$SFX
set -u
cd $WT || exit 2
git diff > /tmp/seed_current.diff
if ! diff -q /tmp/seed_current.diff $SD/patch.diff >/dev/null; then echo "NOTE: worktree diff differs from patch.diff; using patch.diff"; git checkout -- . ; git apply $SD/patch.diff || exit 2; fi
cmake -G Ninja -B _build -S . -DCMAKE_BUILD_TYPE=RelWithDebInfo -DCNTGS_BUILD_TESTS=on -DCNTGS_DISCOVER_TESTS=on >/dev/null 2>&1
cmake --build _build --target cntgs-test-cpp17 cntgs-test-cpp20 2>&1 | grep -E "error|FAILED" | head -3
T=$(ctest --test-dir _build -j8 -E '^cntgs-' 2>&1 | grep "tests passed")
echo "tests with change: $T"
g++ -std=${DEMO_STD:-c++17} -I $WT/src $SD/demo.cpp -o /tmp/demo_$ID$SFX 2>&1 | grep error | head -3
/tmp/demo_$ID$SFX >/tmp/demo_out.txt 2>&1; echo "demo with change: exit $? ($(head -1 /tmp/demo_out.txt))"
git stash -q
g++ -std=${DEMO_STD:-c++17} -I $WT/src $SD/demo.cpp -o /tmp/demo_$ID$SFX 2>&1 | grep error | head -3
/tmp/demo_$ID$SFX >/tmp/demo_out.txt 2>&1; echo "demo without change: exit $? ($(head -1 /tmp/demo_out.txt))"
git stash pop -q
rm -rf _build /tmp/demo_$ID$SFX
git diff --stat | tail -1

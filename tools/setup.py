#!/usr/bin/env python3
"""setup: check that the tools the checks need are present and pre-compute the generator plans of the quick tier
(they depend only on spec/ and the configuration descriptors, not on /repo)."""
import os, shutil, subprocess, sys
from concurrent.futures import ThreadPoolExecutor
sys.path.insert(0, os.path.dirname(os.path.abspath(__file__)))
import vlib, props

def main():
    for tool in ['java', 'clang++', 'g++', 'python3']:
        if not shutil.which(tool):
            print('missing tool', tool); return 3
    if not os.path.exists(vlib.TLA_CP.split(':')[0]):
        print('missing tla2tools.jar'); return 3
    cfgs, akinds, _ = vlib.load_configs()
    pool = ThreadPoolExecutor(vlib.NCPU)
    # layout universes (TLC enumerates the lists and checks the layout oracle on each)
    for f in [pool.submit(vlib.gen_universe, n) for n in vlib.UNIVERSE]:
        f.result()
    seen = set()
    jobs = []
    for p in props.PROPS.values():
        us = p['units']['quick']
        us = us.all() if isinstance(us, props.Units) else us
        for scen, c, ak, b in us:
            cfg = cfgs[c] if isinstance(c, str) else c
            key = (scen, cfg['id'], ak)
            if key in seen:
                continue
            seen.add(key)
            jobs.append(pool.submit(vlib.gen_plan, cfg, scen, 'quick', akinds[ak], (), 1))
    for f in jobs:
        f.result()
    props.src_cases()
    props.reader_schedules(2, 2)
    print('setup: %d quick plans ready (spec-only work: generator models, layout universes, C15 cases, C19 schedules)' % len(jobs))
    return 0
sys.exit(main())

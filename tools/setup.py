#!/usr/bin/env python3
"""setup: check that the tools the checks need are present and pre-compute the generator plans of the quick tier
(they depend only on spec/ and the configuration descriptors, not on /repo)."""
import os, shutil, subprocess, sys
from concurrent.futures import ThreadPoolExecutor
sys.path.insert(0, os.path.dirname(os.path.abspath(__file__)))
import vlib, props

def main():
    for tool in ['java', 'clang++', 'g++', 'python3']:
        if not shutil.which(tool):
            print('missing tool', tool); return 3
    if not os.path.exists(vlib.TLA_CP.split(':')[0]):
        print('missing tla2tools.jar'); return 3
    cfgs, akinds, _ = vlib.load_configs()
    units = sorted({(scen, c, ak) for p in props.PROPS.values() for (scen, c, ak, b) in p['units']['quick']})
    pool = ThreadPoolExecutor(vlib.NCPU)
    futs = [pool.submit(vlib.gen_plan, cfgs[c], scen, 'quick', akinds[ak], ()) for scen, c, ak in units]
    for f in futs:
        f.result()
    print('setup: %d quick plans ready' % len(futs))
    return 0
sys.exit(main())

#!/usr/bin/env python3
"""minimise a divergent history: shrink.py CFG AK 'op; op; ...' KIND[,KIND]   (greedy one-op removal to a fixpoint)"""
import sys, os, json, itertools
from concurrent.futures import ThreadPoolExecutor
sys.path.insert(0, os.path.dirname(os.path.abspath(__file__)))
import vlib

def verdicts(exe, ops, tag, build='asan', seed=1, junk=-1):
    d = os.path.join(vlib.BUILD, 'shrink', tag); os.makedirs(d, exist_ok=True)
    vlib.write_single_plan(d + '/plan.txt', 1, ['O ' + o for o in ops])
    vlib.run_driver(exe, d + '/plan.txt', d + '/trace.ndjson', seed, junk, build)
    vlib.copy_spec(d, vlib.TRACE_SPECS)
    ok, vs, st, out = vlib.validate_chunk(d, d + '/trace.ndjson')
    if not ok: return None
    return vs

def shrink(cfg, ak, ops, kinds, build='asan', seed=1, junk=-1):
    cfgs, akinds, _ = vlib.load_configs()
    exe, dis, diag = vlib.build_driver(cfgs[cfg], ak, akinds[ak], build)
    pool = ThreadPoolExecutor(12)
    def bad(o, tag):
        vs = verdicts(exe, o, tag, build, seed, junk)
        return vs is not None and any(set(v['kinds']) & set(kinds) or any(k.startswith(tuple(kinds)) for k in v['kinds']) for v in vs) \
            and not any('DRIVER_PRECONDITION' in v['kinds'] for v in vs)
    assert bad(ops, 'base'), 'history does not diverge with ' + str(kinds)
    changed = True
    while changed:
        changed = False
        cands = [ops[:i] + ops[i+1:] for i in range(len(ops))]
        res = list(pool.map(lambda t: bad(t[1], 'c%d' % t[0]), enumerate(cands)))
        for i in reversed(range(len(cands))):
            if res[i]:
                ops = cands[i]; changed = True; break
    return ops

if __name__ == '__main__':
    ops = [o.strip() for o in sys.argv[3].split(';') if o.strip()]
    r = shrink(sys.argv[1], sys.argv[2], ops, sys.argv[4].split(','))
    print('; '.join(r))

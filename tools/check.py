#!/usr/bin/env python3
"""./check <property> [--tier quick|thorough] [--replay <file>]

Decides one property of /verif/properties.jsonl on /repo's current working tree:
  TLC explores the bounded TLA+ model of each scenario (spec/Cntgs.tla) and emits histories,
  the driver (harness/) executes them on the real templates and records a trace,
  TLC validates the trace against spec/Trace.tla, which judges every recorded step.
Exit 0: held on everything explored (KNOWN-FINDING lines allowed); exit 1 + "VIOLATION property=<id> replay=<path>";
any other exit code: the machinery itself failed (never a statement about the library).
"""
import json
import os
import sys
import time
from concurrent.futures import ThreadPoolExecutor

sys.path.insert(0, os.path.dirname(os.path.abspath(__file__)))
import vlib  # noqa: E402
import props  # noqa: E402


def main():
    args = sys.argv[1:]
    if not args:
        print(__doc__)
        return 2
    pid = args[0]
    tier = os.environ.get('VERIF_TIER', 'quick')
    replay = None
    i = 1
    while i < len(args):
        if args[i] == '--tier':
            tier = args[i + 1]
            i += 2
        elif args[i] == '--replay':
            replay = args[i + 1]
            i += 2
        else:
            i += 1
    seed = int(os.environ.get('VERIF_SEED', '1'))
    if pid not in props.PROPS:
        print('unknown or unclaimed property', pid)
        return 2
    try:
        if replay:
            return props.replay(pid, replay)
        return props.run_property(pid, tier, seed)
    except vlib.Infra as e:
        print('INFRASTRUCTURE FAILURE (not a verdict about the library):', e)
        return 3


if __name__ == '__main__':
    sys.exit(main())

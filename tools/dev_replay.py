#!/usr/bin/env python3
"""developer helper: dev_replay.py CFG AK 'Construct 1 1 8 1; Emplace 1 1 0 0 0; ...'  -> compact trace + verdicts"""
import sys, os, json
sys.path.insert(0, os.path.dirname(os.path.abspath(__file__)))
import vlib
cfgs, akinds, _ = vlib.load_configs()
cfg, ak, ops = sys.argv[1], sys.argv[2], [o.strip() for o in sys.argv[3].split(';') if o.strip()]
build = sys.argv[4] if len(sys.argv) > 4 else 'asan'
exe, dis, diag = vlib.build_driver(cfgs[cfg], ak, akinds[ak], build)
d = '/tmp/dev_replay'; os.makedirs(d, exist_ok=True)
vlib.write_single_plan(d + '/plan.txt', 1, ['O ' + o for o in ops])
vlib.run_driver(exe, d + '/plan.txt', d + '/trace.ndjson', int(os.environ.get('VERIF_SEED', '1')), int(os.environ.get('JUNK', '-1')), build, symbolize=True)
for ln in open(d + '/trace.ndjson'):
    e = json.loads(ln)
    if e['e'] == 'op':
        print('#%d %s v%d %s par=%s thrown=%d ret=%d' % (e['s'], e['n'], e['v'], e['a'], e['par'], e['thrown'], e['ret']))
        print('    sub:', e['sub'])
        for o in e['obs']:
            if o['st'] != 'live': print('    v%d moved al=%d' % (o['v'], o['al'])); continue
            print('    v%d size=%d cap=%d mc=%d al=%d blk=%d bsz=%d res=%d db=%d de=%d fx=%s pn=%s' % (o['v'], o['size'], o['cap'], o['mc'], o['al'], o['blk'], o['bsz'], o['res'], o['db'], o['de'], o['fx'], o['pn']))
            for el in o['P'][o['pn'][0]-1]:
                print('        [%d,%d) ' % (el['rb'], el['re']) + ' '.join('@%d:%s' % (f['o'], f['v']) for f in el['f']))
    elif e['e'] in ('crash', 'skip', 'end'):
        print(ln.strip()[:600])
vlib.copy_spec(d, vlib.TRACE_SPECS)
ok, vs, st, out = vlib.validate_chunk(d, d + '/trace.ndjson')
print('validated ok=%s' % ok)
for v in vs: print('VERDICT', v)
if not ok: print(out[-3000:])

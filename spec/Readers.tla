------------------------------- MODULE Readers -------------------------------
(***************************************************************************)
(* C19: any number of threads may concurrently call const member functions *)
(* on the same vector / element.                                           *)
(*                                                                         *)
(* Design level (generator part): threads take const operations one at a   *)
(* time; each operation has a read and a write footprint over the shared   *)
(* locations of a vector (the vector object itself, its element offset     *)
(* table, its data block).  Const operations write nothing that is shared  *)
(* - copies and elements they create are local to the calling thread -, so *)
(* every interleaving is race free and every result equals the sequential  *)
(* one (RaceFree, checked by TLC over all interleavings).                  *)
(*                                                                         *)
(* Binding (trace part): whether the real const operations really have an  *)
(* empty write footprint is what must be observed on the code:             *)
(*   "prot" events: each operation executed with the vector object and all *)
(*       its blocks mprotect()ed read-only; wrote = 1 iff it faulted;      *)
(*   "rd" events: the interleavings enumerated here (SCHED lines) replayed *)
(*       on real threads under ThreadSanitizer, turn-taking by relaxed     *)
(*       atomics (which order the steps without creating happens-before);  *)
(*       res = what the operation returned;                                *)
(*   "race" events: a ThreadSanitizer report.                              *)
(***************************************************************************)
EXTENDS Integers, Sequences, FiniteSets, TLC, Json, IOUtils

CONSTANTS Threads, K          \* thread ids 1..n, operations per thread

\* what each name stands for in harness/readers.cpp (every member called on the shared CONST vector / element):
\*   size    size()                       data   data_begin/data_end, capacity, empty, memory_consumption, get_fixed_size,
\*   index   operator[], front, back,            get_allocator, cbegin/cend arithmetic and comparison, it[k]
\*           begin()[i], the reference's data_begin/data_end/size_in_bytes
\*   iterate begin..end, *it              equal  == and != of vectors, element == reference, front()
\*   less    < of vectors, element < reference and back
\*   copy    copy construction (+ mutation of the private copy)
\*   elem    ContiguousElement from a const reference, const_reference from the element, element == reference
OpsR == {"size", "index", "iterate", "equal", "less", "copy", "elem", "data"}

Shared == {"hdr", "tbl", "dat"}
ReadSet(op) ==
  CASE op \in {"size", "data"}                     -> {"hdr", "tbl"}
    [] op \in {"index", "iterate", "equal", "less", "copy", "elem"} -> {"hdr", "tbl", "dat"}
WriteSet(op) == {}            \* const operations; what "copy" and "elem" create is thread-local

VARIABLES done, sched, l
Init == /\ done = [t \in Threads |-> 0] /\ sched = <<>> /\ l = 0
Next == \E t \in Threads, op \in OpsR :
          /\ done[t] < K
          /\ done' = [done EXCEPT ![t] = @ + 1]
          /\ sched' = Append(sched, <<t, op>>)
          /\ UNCHANGED l

Conflict(a, b) == a[1] # b[1] /\ (WriteSet(a[2]) \cap (ReadSet(b[2]) \cup WriteSet(b[2]))) # {}
RaceFree == \A i, j \in 1..Len(sched) : i # j => ~Conflict(sched[i], sched[j])

Complete == \A t \in Threads : done[t] = K
EmitSchedule == Complete => PrintT(<<"SCHED", ToJson(sched)>>)

(***************************************************************************)
(* trace part: setup line {"e":"setup","size":n,"cap":c,"first":[v1..vn]} *)
(***************************************************************************)
TraceLog == ndJsonDeserialize(IOEnv.TRACE)
Setup == TraceLog[1]
RECURSIVE SumSeq(_, _)
SumSeq(q, n) == IF n = 0 THEN 0 ELSE q[n] + SumSeq(q, n - 1)
Expected(op, arg) ==
  CASE op = "size"    -> Setup.size
    [] op = "data"    -> Setup.size                 \* (data_end - data_begin > 0) + size - 1 folded by the driver
    [] op = "index"   -> Setup.first[(arg % Setup.size) + 1]
    [] op = "iterate" -> SumSeq(Setup.first, Setup.size)
    [] op = "equal"   -> 1
    [] op = "less"    -> 0
    [] op = "copy"    -> SumSeq(Setup.first, Setup.size)
    [] op = "elem"    -> Setup.first[(arg % Setup.size) + 1]

Bad(c, name) == IF c THEN {} ELSE {name}
Judge(e) ==
  CASE e.e = "rd"   -> Bad(e.op \in OpsR /\ e.res = Expected(e.op, e.arg), "RESULT_DIFFERS_FROM_SEQUENTIAL")
    [] e.e = "prot" -> Bad(e.wrote = 0, "CONST_OPERATION_WRITES_SHARED_STATE")
                       \cup Bad(e.res = Expected(e.op, e.arg), "RESULT_DIFFERS_FROM_SEQUENTIAL")
    [] e.e = "race" -> {"DATA_RACE"}
    [] e.e = "crash" -> {"CRASH"}
    [] OTHER -> {}

TraceInit == l = 1 /\ done = [t \in Threads |-> 0] /\ sched = <<>>
TraceNext ==
  /\ l <= Len(TraceLog)
  /\ l' = l + 1 /\ UNCHANGED <<done, sched>>
  /\ LET e == TraceLog[l]  k == Judge(e) IN
     IF k = {} THEN TRUE
     ELSE PrintT(<<"VERDICT", ToJson([h |-> IF "sched" \in DOMAIN e THEN e.sched ELSE 0, s |-> l, n |-> e.op,
                                       line |-> l, kinds |-> k])>>)
Consumed == TLCGet("stats").diameter - 1 = Len(TraceLog)
=============================================================================

------------------------------- MODULE Sources -------------------------------
(***************************************************************************)
(* C15: emplace_back stores T(source item), whatever form the source takes.*)
(*                                                                         *)
(* A case = (parameter kind, source form, source/stored type pair, length) *)
(* The specification says, per case, what must be stored, what the source  *)
(* looks like afterwards and how often each source item may be copied or   *)
(* moved from.  TLC enumerates all applicable cases (Init of the generator *)
(* part: one initial state per case, printed as a plan line); the driver   *)
(* harness/sources.hpp executes each case on the real templates and        *)
(* records the outcome; the trace part judges every recorded case.         *)
(***************************************************************************)
EXTENDS Integers, Sequences, FiniteSets, TLC, Json, IOUtils

(* source forms (numbers as in harness/sources.hpp) *)
VEC_L == 1   VEC_R == 2   ARR_L == 3   CARR_L == 4   LIST_L == 5   LIST_R == 6
GEN_R == 7   PTR == 8     VEC_IT == 9  LIST_IT == 10 MOVE_IT == 11
REV_IT == 12        \* std::reverse_iterator over a std::vector: random access, but NOT contiguous in iteration order
\* non-owning views (std::span / std::ranges::subrange in C++20 builds, hand-written views in C++17 builds): ranges
\* like any other - an lvalue view is left alone, an rvalue view is an rvalue range and its items are moved from
VIEW_L == 13        VIEW_R == 14        SUB_R == 15
Forms == 1..15
RangeForms    == {VEC_L, VEC_R, ARR_L, CARR_L, LIST_L, LIST_R, GEN_R, VIEW_L, VIEW_R, SUB_R}
IteratorForms == {PTR, VEC_IT, LIST_IT, MOVE_IT, REV_IT}        \* need a FixedSize parameter: the count comes from it
RvalueForms   == {VEC_R, LIST_R, MOVE_IT, VIEW_R, SUB_R}               \* the items may (and for non-trivial types must) be moved from
StoredForms   == Forms \ {GEN_R}                         \* forms whose items live in a container we can inspect

(* source type -> stored type *)
Convs == {"id", "widen", "sign", "bool", "u2f", "f2u", "cls3", "op1", "enum", "cnt", "str"}
NonTrivial(c) == c \in {"cnt", "str"}
Counted(c) == c = "cnt"

Items(n) == SubSeq(<<0, 2, 3>>, 1, n)         \* harness/sources.hpp item_value

(* the value type constructed from the source item: T(s) *)
Conv(c, x) ==
  CASE c = "bool" -> IF x # 0 THEN 1 ELSE 0       \* bool(unsigned char)
    [] c = "cls3" -> 3 * x                        \* B4(const A4&) triples
    [] c = "op1"  -> x + 1                        \* C4::operator D4() adds one
    [] OTHER      -> x                            \* identity, integral / floating conversions of small integers, enum

Applicable(varying, f, c, n) ==
  /\ f \in Forms /\ c \in Convs /\ n \in 0..3
  /\ (varying = 1) => f \in RangeForms
  /\ f = CARR_L => n >= 1

\* items are consumed in iteration order: a reverse iterator delivers them back to front
Stored(f, c, n) == [i \in 1..n |-> Conv(c, Items(n)[IF f = REV_IT THEN n + 1 - i ELSE i])]
MovedFrom(f, c) == f \in RvalueForms /\ NonTrivial(c)
SourceAfter(f, c, n) == IF MovedFrom(f, c) THEN [i \in 1..n |-> 0] ELSE Items(n)
Moves(f, c, n)  == [i \in 1..n |-> IF MovedFrom(f, c) THEN 1 ELSE 0]
Copies(f, c, n) == [i \in 1..n |-> IF Counted(c) /\ ~MovedFrom(f, c) /\ f # GEN_R THEN 1 ELSE 0]

(***************************************************************************)
(* generator part                                                          *)
(***************************************************************************)
VARIABLES cs, l
GenInit == l = 0 /\ cs \in {x \in [varying : {0, 1}, f : Forms, c : Convs, n : 0..3] : Applicable(x.varying, x.f, x.c, x.n)}
GenNext == UNCHANGED <<cs, l>>
EmitCase == PrintT(<<"CASE", ToJson(cs)>>)

(***************************************************************************)
(* trace part                                                              *)
(***************************************************************************)
TraceLog == ndJsonDeserialize(IOEnv.TRACE)
Bad(cond, name) == IF cond THEN {} ELSE {name}

JudgeCase(e) ==
  IF e.e = "srccrash" THEN {"CRASH"}
  ELSE
    Bad(Applicable(e.varying, e.form, e.conv, e.n) /\ e.ran = 1, "DRIVER_PRECONDITION")
    \cup Bad(e.count = e.n, "COUNT")
    \cup Bad(e.stored = Stored(e.form, e.conv, e.n), "STORED")
    \cup (IF e.hasafter = 1 THEN Bad(e.after = SourceAfter(e.form, e.conv, e.n), "SOURCE_STATE") ELSE {})
    \cup (IF Counted(e.conv)
          THEN IF e.form = GEN_R
               \* generated items are prvalues: each is materialised once and transferred at most once
               THEN Bad(\A i \in 1..Len(e.moves) : e.copies[i] + e.moves[i] <= 1, "COPIED_COUNT")
               ELSE Bad(e.moves = Moves(e.form, e.conv, e.n), "MOVED_FROM_COUNT")
                    \cup Bad(e.copies = Copies(e.form, e.conv, e.n), "COPIED_COUNT")
          ELSE {})
    \* a single-pass range is read once per item, never beyond the n-th
    \cup (IF e.form = GEN_R THEN Bad(e.derefs = e.n /\ e.incs <= e.n, "CONSUMED") ELSE {})

TraceInit == l = 1 /\ cs = 0
TraceNext ==
  /\ l <= Len(TraceLog)
  /\ l' = l + 1 /\ UNCHANGED cs
  /\ LET e == TraceLog[l]  k == JudgeCase(e) IN
     IF k = {} THEN TRUE
     ELSE PrintT(<<"VERDICT", ToJson([h |-> l, s |-> 1, n |-> "EmplaceSrc", line |-> l, kinds |-> k,
                                       case |-> [conv |-> e.conv, varying |-> e.varying, form |-> e.form, n |-> e.n]])>>)
Consumed == TLCGet("stats").diameter - 1 = Len(TraceLog)
=============================================================================

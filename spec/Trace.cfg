CONSTANTS
 P <- TraceP
 F <- TraceF
 Vecs <- TraceVecs
 Elems <- TraceElems
 Allocs = {1, 2}
 POCCA <- TracePOCCA
 POCMA <- TracePOCMA
 POCS <- TracePOCS
 AE <- TraceAE
 SoccFresh <- TraceSoccFresh
 Ops = {}
 MaxCap = 0
 MaxCount = 0
 BudSet = {}
 NTags = 1
 MaxReserve = 0
 PinAlloc = FALSE
 MinCap = 0
 MaxFault = 0
 FxVariants = {0}
INIT TraceInit
NEXT TraceNext
POSTCONDITION Consumed
CHECK_DEADLOCK FALSE

--------------------------------- MODULE Gen ---------------------------------
(***************************************************************************)
(* Generator harness around Cntgs: TLC explores the bounded model breadth  *)
(* first, visiting every abstract state once (VIEW hides the ghost label   *)
(* `act`), and this ACTION_CONSTRAINT - evaluated for every successor,     *)
(* also those that lead to already known states - prints every transition  *)
(* as one JSON line.  tools/plan.py turns the lines into histories.        *)
(***************************************************************************)
EXTENDS Cntgs, Json

KeyVec(r) == IF r.st = "absent" THEN <<"absent">>
             ELSE <<r.st, r.cap, r.bud, r.al, r.fx, r.dc, [i \in 1..Len(r.elems) |-> r.elems[i]]>>
KeyEl(r) == IF r.st = "absent" THEN <<"absent">> ELSE r
Key(vv, ee) == <<[v \in Vecs |-> KeyVec(vv[v])], [x \in Elems |-> KeyEl(ee[x])]>>

EmitEdge == PrintT(<<"EDGE", ToJson([s |-> Key(vec, el), a |-> act', t |-> Key(vec', el')])>>)

(* Simulation mode (tlc -simulate): deep random behaviours of a model whose exhaustive exploration is out of reach; *)
(* every step is printed with the number of the behaviour and its depth.                                          *)
(* TLC may evaluate the constraint for more than one candidate successor of a state before it settles on one; the    *)
(* previous step (act, unprimed) is printed too, so that tools/vlib.py can tell which candidate was continued.         *)
EmitSim == PrintT(<<"SIM", TLCGet("stats").traces, TLCGet("level"), ToJson(act), ToJson(act')>>)

(* known-finding cuts: histories are cut BEFORE a step after which the real *)
(* object's state is undefined (see DESIGN.md section 6); CutSteps is the  *)
(* set of active triggers, instantiated by the generated MC module.        *)
=============================================================================

-------------------------------- MODULE Cntgs --------------------------------
(***************************************************************************)
(* Abstract specification of cntgs::BasicContiguousVector and              *)
(* cntgs::BasicContiguousElement (Tradias/contiguous).                     *)
(*                                                                         *)
(* The container's abstract state is what its public interface exposes:    *)
(* per vector its capacity, its declared budget of varying payload bytes,  *)
(* its allocator and the ORDINARY SEQUENCE of its elements; an element is  *)
(* a tag (for readability only) plus, per parameter, the sequence of the   *)
(* values stored for that parameter.                                       *)
(*                                                                         *)
(* Every public operation is one action.  Each action is written as a      *)
(* precondition PreX(S, ...) - the documented one - and an effect          *)
(* EffX(S, ...) over a state record S = [vec, el], so that the generator   *)
(* (this module's Next, explored exhaustively by TLC) and the trace        *)
(* validator (Trace.tla, which applies the same PreOf/EffOf to the         *)
(* operations the real code was driven through) share ONE definition.      *)
(* What the listed properties leave open (capacity of a copy, ...) is a    *)
(* parameter `par` of the effect: the generator uses DefaultPar, the trace *)
(* validator the logged value, constrained by ParOK.                       *)
(***************************************************************************)
EXTENDS Integers, Sequences, FiniteSets, TLC

CONSTANTS
  P,          \* parameter list: sequence of [k, sz, al, triv]    (see Layout.tla)
  F,          \* FixedSize counts, one entry per parameter (0 where not "fixed")
  Vecs,       \* vector identities used by the scenario, e.g. {1} or {1, 2}
  Elems,      \* stand-alone element identities, e.g. {} or {1, 2}
  Allocs,     \* allocator instance ids a vector can be constructed with
  POCCA, POCMA, POCS,     \* std::allocator_traits propagation traits
  AE,         \* is_always_equal
  SoccFresh,  \* select_on_container_copy_construction returns a different instance
  Ops,        \* names of the operations the scenario enables
  MaxCap, MaxCount, BudSet, NTags, MaxReserve,
  FxVariants, \* generator only: which alternative FixedSize counts Construct is explored with ({0} = only F)
  MaxFault,   \* generator only: allocation-failure indices 1..MaxFault are explored (0: no faults)
  MinCap,     \* generator only: smallest capacity Construct is explored with
  PinAlloc    \* generator only: vector v is always constructed with allocator instance v (bounds who is addressed)

NP == Len(P)
Idx == 1..NP
VarIdx == {k \in Idx : P[k].k = "varying"}
HasVarying == VarIdx # {}
AllTriv == \A k \in Idx : P[k].triv = 1

Absent == [st |-> "absent"]
MovedVal == 0          \* value of a moved-from non-trivial object (harness/tracked.hpp)

(* allocator algebra *)
EqAlloc(a, b) == AE \/ a = b
Soccc(a) == IF SoccFresh /\ a < 10 THEN a + 10 ELSE a     \* as harness/ledger.hpp: a copy of a copy keeps its instance
DefaultAlloc == 1

(***************************************************************************)
(* Elements.                                                               *)
(***************************************************************************)
(* fx = the FixedSize counts of the vector the element lives in (F when it was constructed with sizes, all 0 when *)
(* it was default-constructed: no count was ever given)                                                     *)
NObjs(fx, vs, k) == CASE P[k].k = "fixed" -> fx[k] [] P[k].k = "varying" -> vs[k] [] OTHER -> 1
NoFixed == [k \in 1..Len(P) |-> 0]

Val(t, salt, k, j) == ((t * 7 + salt * 13 + k * 5 + j * 3) % 240) + 1       \* 1..240; 241..250 are free for WriteItem

MkElem(t, salt, vs, fx) ==
  [t |-> t,
   f |-> [k \in Idx |->
            IF P[k].k = "count" THEN <<vs[k + 1]>>
            ELSE [j \in 1..NObjs(fx, vs, k) |-> Val(t, salt, k, j)]]]

ElemVs(e) == [k \in Idx |-> IF P[k].k = "varying" THEN Len(e.f[k]) ELSE 0]

RECURSIVE SumUpTo(_, _)
SumUpTo(f, n) == IF n = 0 THEN 0 ELSE f[n] + SumUpTo(f, n - 1)

ElemPayload(e) == SumUpTo([k \in Idx |-> IF P[k].k = "varying" THEN Len(e.f[k]) * P[k].sz ELSE 0], NP)
VsPayload(vs)  == SumUpTo([k \in Idx |-> IF P[k].k = "varying" THEN vs[k] * P[k].sz ELSE 0], NP)
Payload(es)    == SumUpTo([i \in 1..Len(es) |-> ElemPayload(es[i])], Len(es))

VsOK(vs) == /\ Len(vs) = NP
            /\ \A k \in Idx : IF P[k].k = "varying" THEN vs[k] >= 0 ELSE vs[k] = 0

(* same field sizes: precondition of assignment / swap between references *)
SameShape(e1, e2) == \A k \in Idx : Len(e1.f[k]) = Len(e2.f[k])

(* the element left behind when its contents are moved from: trivially     *)
(* copyable values are unchanged, non-trivial ones are in the moved state  *)
MovedFromElem(e) ==
  [e EXCEPT !.f = [k \in Idx |-> IF P[k].triv = 1 THEN e.f[k]
                                  ELSE [j \in 1..Len(e.f[k]) |-> MovedVal]]]

(***************************************************************************)
(* State, type invariant.                                                  *)
(* A vector record: st, cap, bud (declared varying payload bytes), elems,  *)
(* al (allocator instance), fx (FixedSize counts) and the ghost dc ("was   *)
(* default-constructed"): dc never influences an effect - a default-       *)
(* constructed vector must behave like any other (C18) - it only keeps the *)
(* generator from merging the two ways of reaching an empty vector, so     *)
(* that every operation is also explored behind a default construction.    *)
(***************************************************************************)
VARIABLES vec, el, act

vars == <<vec, el, act>>
S == [vec |-> vec, el |-> el]

Live(S0, v)    == S0.vec[v].st = "live"
Present(S0, v) == S0.vec[v].st \in {"live", "moved"}
Size(S0, v)    == Len(S0.vec[v].elems)

IsElem(e, fx) ==
  /\ DOMAIN e = {"t", "f"} /\ Len(e.f) = NP
  /\ \A k \in Idx : Len(e.f[k]) = NObjs(fx, ElemVs(e), k)
  /\ \A k \in Idx : P[k].k = "count" => e.f[k][1] = Len(e.f[k + 1])

VecOK(r) == \/ r = Absent
            \/ /\ r.st \in {"live", "moved"}
               /\ r.cap \in Nat /\ r.bud \in Nat
               /\ \A i \in 1..Len(r.elems) : IsElem(r.elems[i], r.fx)
               /\ r.st = "moved" => r.elems = <<>>

TypeOK == /\ \A v \in Vecs : VecOK(vec[v])
          /\ \A x \in Elems : el[x] = Absent \/ (el[x].st \in {"live", "moved", "unspec"})
          /\ \A x \in Elems : el[x].st = "live" => Len(el[x].e.f) = NP

(* the container-level invariants the properties imply *)
WithinCapacity == \A v \in Vecs : vec[v].st = "live" => Len(vec[v].elems) <= vec[v].cap
WithinBudget   == \A v \in Vecs : vec[v].st = "live" => Payload(vec[v].elems) <= vec[v].bud

(***************************************************************************)
(* Vector operations.  v is the vector operated on, a the argument tuple   *)
(* (exactly what the driver is told), par what the properties leave open.  *)
(***************************************************************************)
SetVec(S0, v, r) == [S0 EXCEPT !.vec[v] = r]

DefaultPar == [salt |-> 0, cap |-> -1, fault |-> 0, thrown |-> 0, fx |-> NoFixed]
ParCap(par, dflt) == IF par.cap < 0 THEN dflt ELSE par.cap

\* --- construction / destruction
\* two vectors of one type may be constructed with different FixedSize counts: variant 0 = F; variant 1 = the counts
\* of F in reverse order when that differs from F (same total, different split), else every count + 1
FixedIdx == {k \in 1..Len(P) : P[k].k = "fixed"}
RECURSIVE NthOf(_, _)
NthOf(Sx, n) == LET m == CHOOSE x \in Sx : \A y \in Sx : x <= y IN IF n = 1 THEN m ELSE NthOf(Sx \ {m}, n - 1)
RankIn(Sx, k) == Cardinality({x \in Sx : x <= k})
FRev == [k \in 1..Len(P) |-> IF k \in FixedIdx
                                THEN F[NthOf(FixedIdx, Cardinality(FixedIdx) + 1 - RankIn(FixedIdx, k))] ELSE 0]
FxOf(variant) == IF variant # 1 THEN F
                 ELSE IF FRev # F THEN FRev
                 ELSE [k \in 1..Len(P) |-> IF P[k].k = "fixed" THEN F[k] + 1 ELSE 0]
PreConstruct(S0, v, cap, bud, al) == S0.vec[v] = Absent /\ cap >= 0 /\ bud >= 0
EffConstruct(S0, v, cap, bud, al, variant) ==
  SetVec(S0, v, [st |-> "live", cap |-> cap, bud |-> IF HasVarying THEN bud ELSE 0, elems |-> <<>>, al |-> al,
                 fx |-> FxOf(variant), dc |-> FALSE])

PreDefaultConstruct(S0, v) == S0.vec[v] = Absent
EffDefaultConstruct(S0, v) ==
  SetVec(S0, v, [st |-> "live", cap |-> 0, bud |-> 0, elems |-> <<>>, al |-> DefaultAlloc, fx |-> NoFixed, dc |-> TRUE])

PreDestroy(S0, v) == Present(S0, v)
EffDestroy(S0, v) == SetVec(S0, v, Absent)

\* --- modifiers of one vector
PreEmplace(S0, v, t, vs) ==
  /\ Live(S0, v) /\ VsOK(vs)
  /\ Size(S0, v) < S0.vec[v].cap                                  \* documented: size() < capacity()
  /\ Payload(S0.vec[v].elems) + VsPayload(vs) <= S0.vec[v].bud    \* documented: payload within the reserved bytes
EffEmplace(S0, v, t, salt, vs) ==
  [S0 EXCEPT !.vec[v].elems = Append(@, MkElem(t, salt, vs, S0.vec[v].fx))]

PrePopBack(S0, v) == Live(S0, v) /\ Size(S0, v) > 0
EffPopBack(S0, v) == [S0 EXCEPT !.vec[v].elems = SubSeq(@, 1, Len(@) - 1)]

PreErase(S0, v, i) == Live(S0, v) /\ 0 <= i /\ i < Size(S0, v)
EffErase(S0, v, i) == [S0 EXCEPT !.vec[v].elems = SubSeq(@, 1, i) \o SubSeq(@, i + 2, Len(@))]

PreEraseRange(S0, v, i, j) == Live(S0, v) /\ 0 <= i /\ i <= j /\ j <= Size(S0, v)
EffEraseRange(S0, v, i, j) == [S0 EXCEPT !.vec[v].elems = SubSeq(@, 1, i) \o SubSeq(@, j + 1, Len(@))]

PreClear(S0, v) == Present(S0, v)            \* also legal on a moved-from vector (C09)
\* clear() on a moved-from (or otherwise unspecified) vector: from then on it is an ordinary empty vector (C09, C18:
\* "emptied by clear") whose capacity and fixed sizes are whatever it reports - taken from the log
EffClear(S0, v, par) ==
  IF S0.vec[v].st = "moved"
  THEN SetVec(S0, v, [st |-> "live", cap |-> ParCap(par, 0), bud |-> 0, elems |-> <<>>, al |-> S0.vec[v].al,
                      fx |-> par.fx, dc |-> FALSE])
  ELSE [S0 EXCEPT !.vec[v].elems = <<>>]

PreReserve(S0, v, n, b) == Live(S0, v) /\ n >= 0 /\ b >= Payload(S0.vec[v].elems)
EffReserve(S0, v, n, b) ==
  IF n <= S0.vec[v].cap THEN S0                                   \* C10: does nothing at all
  ELSE [S0 EXCEPT !.vec[v].cap = n, !.vec[v].bud = IF HasVarying THEN b ELSE 0]

\* --- special members involving a second vector w
PreCopyConstruct(S0, v, w) == v # w /\ S0.vec[v] = Absent /\ Live(S0, w)
EffCopyConstruct(S0, v, w, par) ==
  LET src == S0.vec[w]
      cap == ParCap(par, src.cap)
  IN  SetVec(S0, v, [st |-> "live", cap |-> cap,
                     bud |-> IF cap = src.cap THEN src.bud ELSE Payload(src.elems),
                     elems |-> src.elems, al |-> Soccc(src.al), fx |-> src.fx, dc |-> src.dc])

PreCopyAssign(S0, v, w) == Present(S0, v) /\ Live(S0, w)
EffCopyAssign(S0, v, w, par) ==
  IF v = w THEN S0
  ELSE LET src == S0.vec[w]
           cap == ParCap(par, src.cap)
       IN  SetVec(S0, v, [st |-> "live", cap |-> cap,
                          bud |-> IF cap = src.cap THEN src.bud ELSE Payload(src.elems),
                          elems |-> src.elems, fx |-> src.fx, dc |-> src.dc,
                          al |-> IF POCCA THEN src.al ELSE S0.vec[v].al])

MovedRec(al) == [st |-> "moved", cap |-> 0, bud |-> 0, elems |-> <<>>, al |-> al, fx |-> NoFixed, dc |-> FALSE]

PreMoveConstruct(S0, v, w) == v # w /\ S0.vec[v] = Absent /\ Live(S0, w)
EffMoveConstruct(S0, v, w) ==
  [S0 EXCEPT !.vec[v] = S0.vec[w], !.vec[w] = MovedRec(S0.vec[w].al)]

PreMoveAssign(S0, v, w) == Present(S0, v) /\ Live(S0, w)
EffMoveAssign(S0, v, w, par) ==
  IF v = w THEN S0
  ELSE LET src == S0.vec[w]
           cap == ParCap(par, src.cap)
       IN  [S0 EXCEPT !.vec[v] = [st |-> "live", cap |-> cap,
                                  bud |-> IF cap = src.cap THEN src.bud ELSE Payload(src.elems),
                                  elems |-> src.elems, fx |-> src.fx, dc |-> src.dc,
                                  al |-> IF POCMA THEN src.al ELSE S0.vec[v].al],
                      !.vec[w] = MovedRec(src.al)]

PreSwap(S0, v, w) ==
  /\ Present(S0, v) /\ Present(S0, w)
  /\ POCS \/ EqAlloc(S0.vec[v].al, S0.vec[w].al)      \* otherwise undefined (allocator requirements)
EffSwap(S0, v, w) ==
  IF v = w THEN S0
  ELSE LET a == S0.vec[v]  b == S0.vec[w]
       IN  [S0 EXCEPT !.vec[v] = IF POCS THEN b ELSE [b EXCEPT !.al = a.al],
                      !.vec[w] = IF POCS THEN a ELSE [a EXCEPT !.al = b.al]]

(***************************************************************************)
(* Stand-alone elements (cntgs::BasicContiguousElement, the vector's       *)
(* value_type).  An element record: [st, e (element contents), al].  For   *)
(* element operations the operand `v` of the action is the element id x.   *)
(* Value-category rule of the library (element.hpp): constructing or       *)
(* assigning from an RVALUE MUTABLE reference (e.g. the prvalue `vec[i]`)  *)
(* moves the values out of the vector; from a const reference it copies.   *)
(***************************************************************************)
SetEl(S0, x, r) == [S0 EXCEPT !.el[x] = r]
ELive(S0, x)    == S0.el[x].st = "live"
EPresent(S0, x) == S0.el[x].st \in {"live", "moved", "unspec"}
InRange(S0, v, i) == Live(S0, v) /\ 0 <= i /\ i < Size(S0, v)
MovedEl(al) == [st |-> "moved", al |-> al]

PreElemFromRef(S0, x, v, i, al) == S0.el[x] = Absent /\ InRange(S0, v, i)
EffElemFromRef(S0, x, v, i, al) == SetEl(S0, x, [st |-> "live", e |-> S0.vec[v].elems[i + 1], al |-> al])
EffElemFromRvRef(S0, x, v, i, al) ==
  [S0 EXCEPT !.el[x] = [st |-> "live", e |-> S0.vec[v].elems[i + 1], al |-> al],
             !.vec[v].elems[i + 1] = MovedFromElem(@)]

PreElemCopy(S0, x, y) == x # y /\ S0.el[x] = Absent /\ ELive(S0, y)
EffElemCopy(S0, x, y) == SetEl(S0, x, [S0.el[y] EXCEPT !.al = Soccc(@)])
EffElemMove(S0, x, y) == [S0 EXCEPT !.el[x] = S0.el[y], !.el[y] = MovedEl(S0.el[y].al)]
EffElemCopyAlloc(S0, x, y, al) == SetEl(S0, x, [S0.el[y] EXCEPT !.al = al])
\* allocator-extended move: steals when the allocators are equal, otherwise moves the values
\* one by one and leaves the source alive with moved-from values
EffElemMoveAlloc(S0, x, y, al) ==
  IF EqAlloc(al, S0.el[y].al)
  THEN [S0 EXCEPT !.el[x] = [S0.el[y] EXCEPT !.al = al], !.el[y] = MovedEl(S0.el[y].al)]
  ELSE [S0 EXCEPT !.el[x] = [S0.el[y] EXCEPT !.al = al], !.el[y].e = MovedFromElem(@)]

\* (assignment to / swap with a MOVED-FROM element is not demanded by any listed property; only live targets)
PreElemAssign(S0, x, y) == (ELive(S0, x) \/ S0.el[x].st = "unspec") /\ ELive(S0, y)
EffElemCopyAssign(S0, x, y) ==
  IF x = y THEN S0
  ELSE SetEl(S0, x, [st |-> "live", e |-> S0.el[y].e, al |-> IF POCCA THEN S0.el[y].al ELSE S0.el[x].al])
EffElemMoveAssign(S0, x, y) ==
  IF x = y THEN S0
  ELSE IF POCMA \/ EqAlloc(S0.el[x].al, S0.el[y].al)
       THEN [S0 EXCEPT !.el[x] = [st |-> "live", e |-> S0.el[y].e,
                                  al |-> IF POCMA THEN S0.el[y].al ELSE S0.el[x].al],
                       !.el[y] = MovedEl(S0.el[y].al)]
       ELSE [S0 EXCEPT !.el[x] = [st |-> "live", e |-> S0.el[y].e, al |-> S0.el[x].al],
                       !.el[y].e = MovedFromElem(@)]

PreElemSwap(S0, x, y) == ELive(S0, x) /\ ELive(S0, y) /\ (POCS \/ EqAlloc(S0.el[x].al, S0.el[y].al))
EffElemSwap(S0, x, y) ==
  IF x = y THEN S0
  ELSE LET a == S0.el[x]  b == S0.el[y]
       IN  [S0 EXCEPT !.el[x] = IF POCS THEN b ELSE [b EXCEPT !.al = a.al],
                      !.el[y] = IF POCS THEN a ELSE [a EXCEPT !.al = b.al]]

\* assignment between an element and a reference into a vector: contents only, equal field sizes required
PreElemAssignFromRef(S0, x, v, i) == ELive(S0, x) /\ InRange(S0, v, i) /\ SameShape(S0.el[x].e, S0.vec[v].elems[i + 1])
EffElemAssignFromRef(S0, x, v, i) == [S0 EXCEPT !.el[x].e = S0.vec[v].elems[i + 1]]
EffElemAssignFromRvRef(S0, x, v, i) ==
  [S0 EXCEPT !.el[x].e = S0.vec[v].elems[i + 1], !.vec[v].elems[i + 1] = MovedFromElem(@)]
PreRefAssignFromElem(S0, v, i, x) == PreElemAssignFromRef(S0, x, v, i)
EffRefAssignFromElem(S0, v, i, x) == [S0 EXCEPT !.vec[v].elems[i + 1] = S0.el[x].e]
EffRefAssignFromRvElem(S0, v, i, x) ==
  [S0 EXCEPT !.vec[v].elems[i + 1] = S0.el[x].e, !.el[x].e = MovedFromElem(@)]

PreElemDestroy(S0, x) == EPresent(S0, x)
EffElemDestroy(S0, x) == SetEl(S0, x, Absent)

(***************************************************************************)
(* References and iterators as proxies (C11).  All operands are positions  *)
(* (0-based) in vectors; contents move between positions, sizes and the    *)
(* sequence structure never change.  Assignment and swap between two       *)
(* references require equal field sizes (documented precondition).         *)
(***************************************************************************)
At(S0, v, i) == S0.vec[v].elems[i + 1]
PreRef2(S0, v, i, w, j) == InRange(S0, v, i) /\ InRange(S0, w, j) /\ SameShape(At(S0, v, i), At(S0, w, j))

\* vec[v][i] = const reference to vec[w][j]   (copy)
EffRefAssign(S0, v, i, w, j) == [S0 EXCEPT !.vec[v].elems[i + 1] = At(S0, w, j)]
\* vec[v][i] = std::move(mutable reference to vec[w][j])   (moves the values out of the source)
EffRefMoveAssign(S0, v, i, w, j) ==
  IF v = w /\ i = j THEN S0
  ELSE LET src == At(S0, w, j)
           S1 == [S0 EXCEPT !.vec[w].elems[j + 1] = MovedFromElem(src)]
       IN  [S1 EXCEPT !.vec[v].elems[i + 1] = src]
\* swap(vec[v][i], vec[w][j]) and std::iter_swap
EffRefSwap(S0, v, i, w, j) ==
  LET a == At(S0, v, i)  b == At(S0, w, j)
      S1 == [S0 EXCEPT !.vec[v].elems[i + 1] = b]
  IN  [S1 EXCEPT !.vec[w].elems[j + 1] = a]

\* write one stored value through an access path (k = parameter, q = item, both 1-based)
PreWriteItem(S0, v, i, k, q, val) ==
  /\ InRange(S0, v, i) /\ k \in Idx /\ P[k].k # "count"
  /\ q >= 1 /\ q <= Len(At(S0, v, i).f[k])
EffWriteItem(S0, v, i, k, q, val) == [S0 EXCEPT !.vec[v].elems[i + 1].f[k][q] = val]

\* permuting algorithms over [first, last) of one vector: all elements of the range have equal field sizes
RangeOK(S0, v, f, l) ==
  /\ Live(S0, v) /\ 0 <= f /\ f <= l /\ l <= Size(S0, v)
  /\ \A a \in f..(l - 1), b \in f..(l - 1) : SameShape(At(S0, v, a), At(S0, v, b))
SubElems(S0, v, f, l) == SubSeq(S0.vec[v].elems, f + 1, l)
Splice(S0, v, f, l, mid) ==
  [S0 EXCEPT !.vec[v].elems = SubSeq(@, 1, f) \o mid \o SubSeq(@, l + 1, Len(@))]
RevSeq(q) == [x \in 1..Len(q) |-> q[Len(q) + 1 - x]]

PreRotate(S0, v, f, m, l) == RangeOK(S0, v, f, l) /\ f <= m /\ m <= l
EffRotate(S0, v, f, m, l) == Splice(S0, v, f, l, SubElems(S0, v, m, l) \o SubElems(S0, v, f, m))
PreReverse(S0, v, f, l) == RangeOK(S0, v, f, l)
EffReverse(S0, v, f, l) == Splice(S0, v, f, l, RevSeq(SubElems(S0, v, f, l)))
\* std::swap_ranges(v.begin()+f, v.begin()+l, w.begin()+g)   (two different vectors)
PreSwapRanges(S0, v, f, l, w, g) ==
  /\ v # w /\ RangeOK(S0, v, f, l) /\ Live(S0, w) /\ 0 <= g /\ g + (l - f) <= Size(S0, w)
  /\ \A d \in 0..(l - f - 1) : SameShape(At(S0, v, f + d), At(S0, w, g + d))
EffSwapRanges(S0, v, f, l, w, g) ==
  LET a == SubElems(S0, v, f, l)  b == SubElems(S0, w, g, g + (l - f))
  IN  Splice(Splice(S0, v, f, l, b), w, g, g + (l - f), a)

\* iterator arithmetic is integer arithmetic on indices: the driver logs the whole table, Trace.tla compares
PreIterProbe(S0, v) == Live(S0, v)

(***************************************************************************)
(* Comparison (C13, C14).  Operands with small value domains, so that ties *)
(* in leading fields occur: EmplaceC(code, vs) stores the digit            *)
(* ((code \div 3^(k-1)) % 3) + 1 in every object of parameter k.           *)
(* CmpAll(v, w) does not change the state; the driver logs the complete    *)
(* truth tables of all six operators between all elements of v and w (as   *)
(* references, const references and stand-alone elements) and between the  *)
(* two vectors; Trace.tla judges them.  Equality is DEFINED here (same      *)
(* sizes, same values); element-level < is not: only its laws are demanded.*)
(***************************************************************************)
RECURSIVE Pow3(_)
Pow3(n) == IF n <= 0 THEN 1 ELSE 3 * Pow3(n - 1)
DigitC(code, k) == ((code \div Pow3(k - 1)) % 3) + 1
\* the LOGICAL value: for floating-point parameters the driver stores +0.0 for digit 1 and -0.0 for digit 2 - two
\* representations of one value, which must compare equal (C13: equality of logical content, not of bytes)
\* signed integral parameters store -1 for digit 3, so that value order and byte order differ (C14)
ValC(code, k) == IF P[k].flt = 1 /\ DigitC(code, k) = 2 THEN 1
                 ELSE IF P[k].sgn = 1 /\ DigitC(code, k) = 3 THEN -1
                 ELSE DigitC(code, k)
MkElemC(code, vs, fx) ==
  [t |-> code,
   f |-> [k \in Idx |-> IF P[k].k = "count" THEN <<vs[k + 1]>>
                        ELSE [j \in 1..NObjs(fx, vs, k) |-> ValC(code, k)]]]
PreEmplaceC(S0, v, code, vs) == PreEmplace(S0, v, code, vs)
EffEmplaceC(S0, v, code, vs) == [S0 EXCEPT !.vec[v].elems = Append(@, MkElemC(code, vs, S0.vec[v].fx))]

EqElem(a, b) == a.f = b.f
EqElems(as, bs) == Len(as) = Len(bs) /\ \A i \in 1..Len(as) : EqElem(as[i], bs[i])
PreCmpAll(S0, v, w) == Live(S0, v) /\ Live(S0, w)

(***************************************************************************)
(* Dispatch on the operation name - used by the generator actions below    *)
(* and by Trace.tla.                                                       *)
(***************************************************************************)
VecOps1 == {"Construct", "DefaultConstruct", "Destroy", "Emplace", "PopBack", "Erase", "EraseRange",
            "Clear", "Reserve"}
VecOps2 == {"CopyConstruct", "CopyAssign", "MoveConstruct", "MoveAssign", "Swap"}
ElemOps == {"ElemFromRef", "ElemFromLvRef", "ElemFromRvRef", "ElemAssignFromLvRef", "ElemCopy", "ElemMove", "ElemCopyAlloc", "ElemMoveAlloc",
            "ElemCopyAssign", "ElemMoveAssign", "ElemSwap", "ElemAssignFromRef", "ElemAssignFromRvRef", "ElemDestroy"}
CmpOps == {"CmpAll"}
RefOps == {"RefAssign", "RefAssignLv", "RefMoveAssign", "RefSwap", "IterSwap", "WriteItem", "Rotate", "Reverse", "SwapRanges",
           "IterProbe"}
ElemOps2 == {"ElemCopy", "ElemMove", "ElemCopyAlloc", "ElemMoveAlloc", "ElemCopyAssign", "ElemMoveAssign", "ElemSwap"}

PreOf(S0, n, v, a) ==
  CASE n = "Construct"        -> PreConstruct(S0, v, a[1], a[2], a[3])
    [] n = "DefaultConstruct" -> PreDefaultConstruct(S0, v)
    [] n = "Destroy"          -> PreDestroy(S0, v)
    [] n = "Emplace"          -> PreEmplace(S0, v, a[1], SubSeq(a, 2, Len(a)))
    [] n = "PopBack"          -> PrePopBack(S0, v)
    [] n = "Erase"            -> PreErase(S0, v, a[1])
    [] n = "EraseRange"       -> PreEraseRange(S0, v, a[1], a[2])
    [] n = "Clear"            -> PreClear(S0, v)
    [] n = "Reserve"          -> PreReserve(S0, v, a[1], a[2])
    [] n = "CopyConstruct"    -> PreCopyConstruct(S0, v, a[1])
    [] n = "CopyAssign"       -> PreCopyAssign(S0, v, a[1])
    [] n = "MoveConstruct"    -> PreMoveConstruct(S0, v, a[1])
    [] n = "MoveAssign"       -> PreMoveAssign(S0, v, a[1])
    [] n = "Swap"             -> PreSwap(S0, v, a[1])
    [] n \in {"ElemFromRef", "ElemFromLvRef", "ElemFromRvRef"} -> PreElemFromRef(S0, v, a[1], a[2], a[3])
    [] n \in {"ElemCopy", "ElemMove", "ElemCopyAlloc", "ElemMoveAlloc"} -> PreElemCopy(S0, v, a[1])
    [] n \in {"ElemCopyAssign", "ElemMoveAssign"} -> PreElemAssign(S0, v, a[1])
    [] n = "ElemSwap"         -> PreElemSwap(S0, v, a[1])
    [] n \in {"ElemAssignFromRef", "ElemAssignFromLvRef", "ElemAssignFromRvRef"} -> PreElemAssignFromRef(S0, v, a[1], a[2])
    [] n \in {"RefAssignFromElem", "RefAssignFromRvElem"}  -> PreRefAssignFromElem(S0, v, a[1], a[2])
    [] n = "ElemDestroy"      -> PreElemDestroy(S0, v)
    [] n \in {"RefAssign", "RefAssignLv", "RefMoveAssign", "RefSwap", "IterSwap"} -> PreRef2(S0, v, a[1], a[2], a[3])
    [] n = "WriteItem"        -> PreWriteItem(S0, v, a[1], a[2], a[3], a[4])
    [] n = "Rotate"           -> PreRotate(S0, v, a[1], a[2], a[3])
    [] n = "Reverse"          -> PreReverse(S0, v, a[1], a[2])
    [] n = "SwapRanges"       -> PreSwapRanges(S0, v, a[1], a[2], a[3], a[4])
    [] n = "IterProbe"        -> PreIterProbe(S0, v)
    [] n = "EmplaceC"         -> PreEmplaceC(S0, v, a[1], SubSeq(a, 2, Len(a)))
    [] n = "CmpAll"           -> PreCmpAll(S0, v, a[1])
    [] OTHER                  -> FALSE

(***************************************************************************)
(* Allocation failure (C17).  An operation whose k-th allocation fails     *)
(* throws; what it leaves behind is constrained, not fixed:                *)
(*   - constructors: the object does not come into existence, the source   *)
(*     is untouched;                                                       *)
(*   - reserve: the vector is COMPLETELY unchanged (strong guarantee);     *)
(*   - assignments: the target (and for move assignment the source) is     *)
(*     valid but unspecified - modelled like a moved-from container: it    *)
(*     may only be cleared, assigned to, swapped or destroyed, and its     *)
(*     allocator is unknown (al = 0).  That it is really destructible,     *)
(*     that nothing leaks and every object dies exactly once is judged by  *)
(*     the ledger and lifetime sub-machines at the end of the history.     *)
(***************************************************************************)
FaultOps == {"Construct", "Reserve", "CopyConstruct", "CopyAssign", "MoveAssign", "ElemFromRef", "ElemFromLvRef",
             "ElemFromRvRef", "ElemCopy", "ElemCopyAlloc", "ElemMoveAlloc", "ElemCopyAssign", "ElemMoveAssign"}
\* the allocator of an unspecified operand is unknown (0) only if the failed operation could have propagated one
Unspec(S0, v, prop) == MovedRec(IF prop THEN 0 ELSE S0.vec[v].al)
\* "unspec" (operand of a failed assignment) differs from "moved" in one respect: C17 demands that it can be
\* assigned to again
UnspecEl(S0, x, prop) == [st |-> "unspec", al |-> IF prop THEN 0 ELSE S0.el[x].al]
ThrowEff(S0, n, v, a) ==
  CASE n \in {"Construct", "CopyConstruct", "Reserve", "ElemFromRef", "ElemFromLvRef", "ElemFromRvRef", "ElemCopy",
              "ElemCopyAlloc", "ElemMoveAlloc"} -> S0
    [] n = "CopyAssign"     -> IF a[1] = v THEN S0 ELSE [S0 EXCEPT !.vec[v] = Unspec(S0, v, POCCA)]
    [] n = "MoveAssign"     -> IF a[1] = v THEN S0
                               ELSE [S0 EXCEPT !.vec[v] = Unspec(S0, v, POCMA), !.vec[a[1]] = Unspec(S0, a[1], FALSE)]
    [] n = "ElemCopyAssign" -> IF a[1] = v THEN S0 ELSE [S0 EXCEPT !.el[v] = UnspecEl(S0, v, POCCA)]
    [] n = "ElemMoveAssign" -> IF a[1] = v THEN S0
                               ELSE [S0 EXCEPT !.el[v] = UnspecEl(S0, v, POCMA), !.el[a[1]] = UnspecEl(S0, a[1], FALSE)]
    [] OTHER                -> S0

EffOf(S0, n, v, a, par) ==
  IF par.thrown = 1 THEN ThrowEff(S0, n, v, a) ELSE
  CASE n = "Construct"        -> EffConstruct(S0, v, a[1], a[2], a[3], IF Len(a) >= 4 THEN a[4] ELSE 0)
    [] n = "DefaultConstruct" -> EffDefaultConstruct(S0, v)
    [] n = "Destroy"          -> EffDestroy(S0, v)
    [] n = "Emplace"          -> EffEmplace(S0, v, a[1], par.salt, SubSeq(a, 2, Len(a)))
    [] n = "PopBack"          -> EffPopBack(S0, v)
    [] n = "Erase"            -> EffErase(S0, v, a[1])
    [] n = "EraseRange"       -> EffEraseRange(S0, v, a[1], a[2])
    [] n = "Clear"            -> EffClear(S0, v, par)
    [] n = "Reserve"          -> EffReserve(S0, v, a[1], a[2])
    [] n = "CopyConstruct"    -> EffCopyConstruct(S0, v, a[1], par)
    [] n = "CopyAssign"       -> EffCopyAssign(S0, v, a[1], par)
    [] n = "MoveConstruct"    -> EffMoveConstruct(S0, v, a[1])
    [] n = "MoveAssign"       -> EffMoveAssign(S0, v, a[1], par)
    [] n = "Swap"             -> EffSwap(S0, v, a[1])
    \* ...LvRef / ...Lv: the source is a NAMED MUTABLE reference (an lvalue): that copies, exactly like a const one
    [] n \in {"ElemFromRef", "ElemFromLvRef"} -> EffElemFromRef(S0, v, a[1], a[2], a[3])
    [] n = "ElemFromRvRef"    -> EffElemFromRvRef(S0, v, a[1], a[2], a[3])
    [] n = "ElemCopy"         -> EffElemCopy(S0, v, a[1])
    [] n = "ElemMove"         -> EffElemMove(S0, v, a[1])
    [] n = "ElemCopyAlloc"    -> EffElemCopyAlloc(S0, v, a[1], a[2])
    [] n = "ElemMoveAlloc"    -> EffElemMoveAlloc(S0, v, a[1], a[2])
    [] n = "ElemCopyAssign"   -> EffElemCopyAssign(S0, v, a[1])
    [] n = "ElemMoveAssign"   -> EffElemMoveAssign(S0, v, a[1])
    [] n = "ElemSwap"         -> EffElemSwap(S0, v, a[1])
    [] n \in {"ElemAssignFromRef", "ElemAssignFromLvRef"} -> EffElemAssignFromRef(S0, v, a[1], a[2])
    [] n = "ElemAssignFromRvRef" -> EffElemAssignFromRvRef(S0, v, a[1], a[2])
    [] n = "RefAssignFromElem"   -> EffRefAssignFromElem(S0, v, a[1], a[2])
    [] n = "RefAssignFromRvElem" -> EffRefAssignFromRvElem(S0, v, a[1], a[2])
    [] n = "ElemDestroy"      -> EffElemDestroy(S0, v)
    [] n \in {"RefAssign", "RefAssignLv"} -> EffRefAssign(S0, v, a[1], a[2], a[3])
    [] n = "RefMoveAssign"    -> EffRefMoveAssign(S0, v, a[1], a[2], a[3])
    [] n \in {"RefSwap", "IterSwap"} -> EffRefSwap(S0, v, a[1], a[2], a[3])
    [] n = "WriteItem"        -> EffWriteItem(S0, v, a[1], a[2], a[3], a[4])
    [] n = "Rotate"           -> EffRotate(S0, v, a[1], a[2], a[3])
    [] n = "Reverse"          -> EffReverse(S0, v, a[1], a[2])
    [] n = "SwapRanges"       -> EffSwapRanges(S0, v, a[1], a[2], a[3], a[4])
    [] n = "IterProbe"        -> S0
    [] n = "EmplaceC"         -> EffEmplaceC(S0, v, a[1], SubSeq(a, 2, Len(a)))
    [] n = "CmpAll"           -> S0

(* constraint on logged parameters: what the properties do fix *)
ParOK(S0, n, v, a, par) ==
  IF n \in {"CopyConstruct", "CopyAssign", "MoveAssign"} /\ par.cap >= 0
  THEN par.cap >= Len(S0.vec[a[1]].elems)
  ELSE IF n = "Clear" THEN Len(par.fx) = NP
  ELSE TRUE

(* Which iterator index erase must return *)
RetIdx(n, a) == IF n \in {"Erase", "EraseRange"} THEN a[1] ELSE -1

(* operations that must not (re)allocate and must keep all addresses (C16) *)
NoReallocOps == {"Emplace", "PopBack", "Erase", "EraseRange", "Clear"}

(***************************************************************************)
(* Generator: bounded argument spaces, one named action per operation.     *)
(***************************************************************************)
Tags == 1..NTags
VsSpace == {vs \in [Idx -> 0..MaxCount] : \A k \in Idx : P[k].k # "varying" => vs[k] = 0}
UsedTags(v) == {vec[v].elems[i].t : i \in 1..Len(vec[v].elems)}
FreshTag(v) == IF Tags \ UsedTags(v) = {} THEN 1 ELSE CHOOSE t \in Tags \ UsedTags(v) : \A u \in Tags \ UsedTags(v) : t <= u

DoPar(n, v, a, k) ==
  /\ n \in Ops
  /\ PreOf(S, n, v, a)
  /\ LET R == EffOf(S, n, v, a, [DefaultPar EXCEPT !.fault = k, !.thrown = IF k > 0 THEN 1 ELSE 0])
     IN vec' = R.vec /\ el' = R.el
  /\ act' = [n |-> n, v |-> v, a |-> a, fault |-> k]

\* every operation as it is, and - for the operations that may allocate - with its k-th allocation failing
Do(n, v, a) == \/ DoPar(n, v, a, 0)
               \/ (n \in FaultOps /\ \E k \in 1..MaxFault : DoPar(n, v, a, k))

AllocChoice(v)   == IF PinAlloc /\ v \in Allocs THEN {v} ELSE Allocs
Construct        == \E v \in Vecs, c \in MinCap..MaxCap, b \in BudSet, fv \in FxVariants : \E al \in AllocChoice(v) :
                       Do("Construct", v, IF fv = 0 THEN <<c, b, al>> ELSE <<c, b, al, fv>>)
DefaultConstruct == \E v \in Vecs : Do("DefaultConstruct", v, <<>>)
Destroy          == \E v \in Vecs : Do("Destroy", v, <<>>)
EmplaceBack      == \E v \in Vecs, vs \in VsSpace : vec[v].st = "live" /\ Do("Emplace", v, <<FreshTag(v)>> \o vs)
PopBack          == \E v \in Vecs : Do("PopBack", v, <<>>)
Erase            == \E v \in Vecs, i \in 0..MaxReserve : Do("Erase", v, <<i>>)
EraseRange       == \E v \in Vecs, i \in 0..MaxReserve, j \in 0..MaxReserve : Do("EraseRange", v, <<i, j>>)
Clear            == \E v \in Vecs : Do("Clear", v, <<>>)
Reserve          == \E v \in Vecs, n \in 0..MaxReserve, b \in BudSet : Do("Reserve", v, <<n, b>>)
CopyConstruct    == \E v \in Vecs, w \in Vecs : Do("CopyConstruct", v, <<w>>)
CopyAssign       == \E v \in Vecs, w \in Vecs : Do("CopyAssign", v, <<w>>)
MoveConstruct    == \E v \in Vecs, w \in Vecs : Do("MoveConstruct", v, <<w>>)
MoveAssign       == \E v \in Vecs, w \in Vecs : Do("MoveAssign", v, <<w>>)
Swap             == \E v \in Vecs, w \in Vecs : Do("Swap", v, <<w>>)

IdxSpace == 0..(MaxReserve - 1)
ElemFromRef      == \E x \in Elems, v \in Vecs, i \in IdxSpace : \E al \in AllocChoice(x) :
                       \/ Do("ElemFromRef", x, <<v, i, al>>) \/ Do("ElemFromRvRef", x, <<v, i, al>>)
                       \/ Do("ElemFromLvRef", x, <<v, i, al>>)
ElemCopyMove     == \E x \in Elems, y \in Elems :
                       \/ Do("ElemCopy", x, <<y>>) \/ Do("ElemMove", x, <<y>>)
                       \/ \E al \in Allocs : Do("ElemCopyAlloc", x, <<y, al>>) \/ Do("ElemMoveAlloc", x, <<y, al>>)
ElemAssign       == \E x \in Elems, y \in Elems :
                       \/ Do("ElemCopyAssign", x, <<y>>) \/ Do("ElemMoveAssign", x, <<y>>) \/ Do("ElemSwap", x, <<y>>)
ElemRefAssign    == \E x \in Elems, v \in Vecs, i \in IdxSpace :
                       \/ Do("ElemAssignFromRef", x, <<v, i>>) \/ Do("ElemAssignFromRvRef", x, <<v, i>>)
                       \/ Do("ElemAssignFromLvRef", x, <<v, i>>)
                       \/ Do("RefAssignFromElem", v, <<i, x>>) \/ Do("RefAssignFromRvElem", v, <<i, x>>)
ElemDestroy      == \E x \in Elems : Do("ElemDestroy", x, <<>>)
RefAssign        == \E v \in Vecs, w \in Vecs, i \in IdxSpace, j \in IdxSpace :
                       \/ Do("RefAssign", v, <<i, w, j>>) \/ Do("RefMoveAssign", v, <<i, w, j>>)
                       \/ Do("RefAssignLv", v, <<i, w, j>>)
                       \/ Do("RefSwap", v, <<i, w, j>>) \/ Do("IterSwap", v, <<i, w, j>>)
\* written values: a value that no element holds (241.. are outside Val's range 1..240), one per access path
WriteItem        == \E v \in Vecs, i \in IdxSpace, k \in Idx :
                       /\ vec[v].st = "live"
                       \* one written value per vector at a time keeps the generator finite and small
                       /\ \A z \in 1..Len(vec[v].elems) : \A k2 \in Idx : \A q2 \in 1..Len(vec[v].elems[z].f[k2]) :
                             P[k2].k = "count" \/ vec[v].elems[z].f[k2][q2] <= 240
                       /\ \E q \in {1, NObjs(vec[v].fx, [z \in Idx |-> MaxCount], k)} :
                             LET pth == (i + k + q) % 6 IN Do("WriteItem", v, <<i, k, q, 241 + pth, pth>>)
Permute          == \E v \in Vecs, f \in 0..MaxReserve, m \in 0..MaxReserve, l \in 0..MaxReserve :
                       \/ Do("Rotate", v, <<f, m, l>>) \/ (m = f /\ Do("Reverse", v, <<f, l>>))
                       \/ \E w \in Vecs, g \in 0..MaxReserve : m = f /\ Do("SwapRanges", v, <<f, l, w, g>>)
IterProbe        == \E v \in Vecs : Do("IterProbe", v, <<>>)
CmpCodes         == {0, 1, 3}             \* digits of the first two value parameters: (1,1) (2,1) (1,2)
EmplaceC         == \E v \in Vecs, c \in CmpCodes, vs \in VsSpace : Do("EmplaceC", v, <<c>> \o vs)
CmpAll           == \E v \in Vecs, w \in Vecs : Do("CmpAll", v, <<w>>)

Init == /\ vec = [v \in Vecs |-> Absent]
        /\ el = [x \in Elems |-> Absent]
        /\ act = [n |-> "Init", v |-> 0, a |-> <<>>, fault |-> 0]

Next == \/ Construct \/ DefaultConstruct \/ Destroy \/ EmplaceBack \/ PopBack \/ Erase \/ EraseRange
        \/ Clear \/ Reserve \/ CopyConstruct \/ CopyAssign \/ MoveConstruct \/ MoveAssign \/ Swap
        \/ ElemFromRef \/ ElemCopyMove \/ ElemAssign \/ ElemRefAssign \/ ElemDestroy
        \/ RefAssign \/ WriteItem \/ Permute \/ IterProbe \/ EmplaceC \/ CmpAll

Spec == Init /\ [][Next]_vars

(***************************************************************************)
(* Action properties: the listed properties read as statements about the   *)
(* abstract machine (checked by TLC on the bounded model; the same         *)
(* statements are enforced on the real code by Trace.tla).                 *)
(***************************************************************************)
\* C10: reserve never reduces capacity, never changes contents
ReserveMonotone ==
  [][(act'.n = "Reserve" /\ act'.fault = 0) =>
       LET v == act'.v IN /\ vec'[v].cap >= vec[v].cap
                          /\ vec'[v].elems = vec[v].elems
                          /\ (act'.a[1] <= vec[v].cap => vec'[v] = vec[v])
                          /\ (act'.a[1] > vec[v].cap => vec'[v].cap = act'.a[1])]_vars

\* C17: a failed reserve or (copy) construction leaves everything as it was
FailedReserveUnchanged ==
  [][(act'.fault > 0 /\ act'.n \in {"Reserve", "Construct", "CopyConstruct"}) => (vec' = vec /\ el' = el)]_vars

\* C16: capacity changes only through reserve beyond capacity, assignment or swap (or construction)
CapacityStable ==
  [][\A v \in Vecs : (vec[v].st = "live" /\ vec'[v].st = "live" /\ vec'[v].cap # vec[v].cap)
        => act'.n \in {"Reserve", "CopyAssign", "MoveAssign", "Swap"}]_vars

\* C01: erase keeps everything in front of the erased position, and what followed moves up
EraseIsSequenceErase ==
  [][act'.n = "Erase" =>
       LET v == act'.v  i == act'.a[1] IN
         /\ Len(vec'[v].elems) = Len(vec[v].elems) - 1
         /\ \A q \in 1..i : vec'[v].elems[q] = vec[v].elems[q]
         /\ \A q \in (i + 1)..Len(vec'[v].elems) : vec'[v].elems[q] = vec[v].elems[q + 1]]_vars

\* C09: a copy is independent - an operation on one vector never changes another one
\*      unless it names it as its second operand
CopyIndependent ==
  [][\A v \in Vecs : (vec'[v] # vec[v]) =>
        \/ (act'.v = v /\ act'.n \notin ElemOps)
        \/ (act'.n \in {"MoveConstruct", "MoveAssign", "Swap"} /\ act'.a[1] = v)
        \/ (act'.n \in {"ElemFromRvRef", "ElemAssignFromRvRef"} /\ act'.a[1] = v)
        \/ (act'.n \in {"RefMoveAssign", "RefSwap", "IterSwap"} /\ act'.a[2] = v)
        \/ (act'.n = "SwapRanges" /\ act'.a[3] = v)]_vars

\* C12: an element is an independent deep copy - operations on vectors never change an element, and
\*      element operations change a vector only when they move out of it / assign into it
ElementIndependent ==
  [][\A x \in Elems : (el'[x] # el[x]) =>
        \/ (act'.v = x /\ act'.n \in ElemOps)
        \/ (act'.n \in {"ElemMove", "ElemMoveAlloc", "ElemMoveAssign", "ElemSwap"} /\ act'.a[1] = x)
        \/ (act'.n = "RefAssignFromRvElem" /\ act'.a[2] = x)]_vars

\* C09: self-assignment and self-swap change nothing
SelfOpsStutter ==
  [][(act'.n \in {"CopyAssign", "MoveAssign", "Swap"} /\ act'.a[1] = act'.v) => vec' = vec]_vars

\* C08: allocator changes exactly as std::allocator_traits says
AllocatorPropagation ==
  [][\A v \in Vecs : (vec[v].st # "absent" /\ vec'[v].st # "absent" /\ vec'[v].al # vec[v].al) =>
        \/ act'.fault > 0
        \/ (act'.n = "CopyAssign" /\ POCCA) \/ (act'.n = "MoveAssign" /\ POCMA) \/ (act'.n = "Swap" /\ POCS)]_vars

(* hide the ghost label from the fingerprint: every abstract state once *)
View == <<vec, el>>
=============================================================================

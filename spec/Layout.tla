------------------------------- MODULE Layout -------------------------------
(***************************************************************************)
(* The layout that the properties C02-C05 REQUIRE of cntgs, written down    *)
(* from the property text and not from the implementation:                 *)
(*                                                                         *)
(*   - every field starts at the lowest address >= the end of the previous *)
(*     field that is a multiple of the field's declared alignment (AlignAs *)
(*     value, 1 when there is none - the library packs by default);        *)
(*   - every element starts at the lowest multiple of the largest          *)
(*     parameter alignment >= the end of the previous element.             *)
(*                                                                         *)
(* A parameter list is a sequence of records [k, sz, al]:                  *)
(*   k  \in {"plain", "count", "fixed", "varying"}   ("count" = the plain  *)
(*        parameter directly in front of a VaryingSize parameter; it holds *)
(*        the number of objects of that parameter),                        *)
(*   sz = sizeof(value type),  al = declared alignment.                    *)
(* F  = per parameter the FixedSize count (0 where not "fixed"),           *)
(* vs = per parameter the VaryingSize count of ONE element (0 elsewhere).  *)
(* All addresses are byte offsets relative to the start of the block; the  *)
(* block base itself is a multiple of MaxAl (allocator contract), so       *)
(* alignment of offsets = alignment of addresses up to MaxAl.              *)
(***************************************************************************)
EXTENDS Integers, Sequences, FiniteSets

AlignUp(x, a) == ((x + a - 1) \div a) * a

SetMax(S) == CHOOSE x \in S : \A y \in S : y <= x

MaxAl(P) == SetMax({P[k].al : k \in 1..Len(P)})

NObj(P, F, vs, k) ==
  CASE P[k].k = "fixed"   -> F[k]
    [] P[k].k = "varying" -> vs[k]
    [] OTHER              -> 1

(* Greedy field placement from byte position pos on, parameters k..Len(P). *)
RECURSIVE FieldsFrom(_, _, _, _, _)
FieldsFrom(P, F, vs, k, pos) ==
  IF k > Len(P) THEN <<>>
  ELSE LET o == AlignUp(pos, P[k].al)
           n == NObj(P, F, vs, k)
       IN  <<[o |-> o, n |-> n, e |-> o + n * P[k].sz]>> \o FieldsFrom(P, F, vs, k + 1, o + n * P[k].sz)

(* One element whose storage may begin at or after byte `after`.           *)
ElemAt(P, F, vs, after) ==
  LET start == AlignUp(after, MaxAl(P))
      fs    == FieldsFrom(P, F, vs, 1, start)
  IN  [rb |-> start, f |-> fs, re |-> fs[Len(fs)].e]

(* All elements of a vector, first one at byte `base` of its block.        *)
RECURSIVE ElemsFrom(_, _, _, _, _)
ElemsFrom(P, F, vss, i, after) ==
  IF i > Len(vss) THEN <<>>
  ELSE LET e == ElemAt(P, F, vss[i], after)
       IN  <<e>> \o ElemsFrom(P, F, vss, i + 1, e.re)

ElemsLayout(P, F, vss, base) == ElemsFrom(P, F, vss, 1, base)

EndOfData(P, F, vss, base) ==
  IF Len(vss) = 0 THEN base
  ELSE LET L == ElemsLayout(P, F, vss, base) IN L[Len(L)].re

(***************************************************************************)
(* Predicates over OBSERVED layouts.  An observed element is a record      *)
(*   [rb, re, itd, f] with f a sequence of [o (offset), n (count), v].     *)
(***************************************************************************)
FieldEnd(P, fo, k) == fo.o + fo.n * P[k].sz

(* C04: parameter order, inside the element, no overlap.                   *)
ElemInOrder(P, e) ==
  /\ Len(e.f) = Len(P)
  /\ e.rb <= e.f[1].o
  /\ \A k \in 1..Len(P) : e.f[k].n >= 0
  /\ \A k \in 1..(Len(P) - 1) : FieldEnd(P, e.f[k], k) <= e.f[k + 1].o
  /\ FieldEnd(P, e.f[Len(P)], Len(P)) <= e.re
  /\ e.itd = e.rb

ElemsInOrder(P, E, db, de) ==
  /\ \A i \in 1..Len(E) : ElemInOrder(P, E[i])
  /\ \A i \in 1..(Len(E) - 1) : E[i].re <= E[i + 1].rb
  /\ Len(E) > 0 => (db <= E[1].rb /\ E[Len(E)].re <= de)
  /\ db <= de

(* C02: everything inside [0, bsz) of the block it was observed in.        *)
ElemsInBlock(P, E, db, de, bsz) ==
  /\ 0 <= db /\ de <= bsz
  /\ \A i \in 1..Len(E) :
       /\ 0 <= E[i].rb /\ E[i].re <= bsz
       /\ \A k \in 1..Len(P) : 0 <= E[i].f[k].o /\ FieldEnd(P, E[i].f[k], k) <= bsz

(* C03: objects of parameters with a declared alignment are aligned.       *)
(* res = (numeric block base) mod 4096; empty spans hold no object.        *)
ElemsAligned(P, E, res) ==
  \A i \in 1..Len(E) : \A k \in 1..Len(P) :
     (P[k].al > 1 /\ E[i].f[k].n > 0) => (res + E[i].f[k].o) % P[k].al = 0

(* C05: observed offsets are exactly the greedy ones.                      *)
ElemsTight(P, F, E, vss, base) ==
  LET L == ElemsLayout(P, F, vss, base) IN
  /\ Len(E) = Len(L)
  /\ \A i \in 1..Len(E) :
       /\ E[i].rb = L[i].rb
       /\ E[i].re = L[i].re
       /\ \A k \in 1..Len(P) : E[i].f[k].o = L[i].f[k].o

(***************************************************************************)
(* Sanity of the oracle itself (checked by TLC in MC_Layout): the greedy   *)
(* layout satisfies order, disjointness and alignment, so requiring it is  *)
(* not self-contradictory.                                                 *)
(***************************************************************************)
AsObserved(L) == [i \in 1..Len(L) |->
                    [rb |-> L[i].rb, re |-> L[i].re, itd |-> L[i].rb,
                     f |-> [k \in 1..Len(L[i].f) |-> [o |-> L[i].f[k].o, n |-> L[i].f[k].n, v |-> <<>>]]]]

GreedyIsSound(P, F, vss) ==
  LET L == ElemsLayout(P, F, vss, 0)
      E == AsObserved(L)
      de == EndOfData(P, F, vss, 0)
  IN  /\ ElemsInOrder(P, E, 0, de)
      /\ ElemsAligned(P, E, 0)
      /\ ElemsAligned(P, E, MaxAl(P))          \* base aligned to exactly MaxAl and no more
      /\ ElemsTight(P, F, E, vss, 0)
      /\ \A i \in 1..Len(E) : E[i].rb % MaxAl(P) = 0
=============================================================================

-------------------------------- MODULE Trace --------------------------------
(***************************************************************************)
(* Trace validation: every execution of the REAL templates recorded by     *)
(* harness/driver.hpp is replayed against the specification.               *)
(*                                                                         *)
(* One trace line = one step.  An "op" line names the operation and its    *)
(* arguments (exactly what Cntgs!PreOf/EffOf take), the ledger / lifetime  *)
(* events that happened inside it, and the complete projection of every    *)
(* container afterwards.  The step is judged by the specification only:    *)
(*   model state' = EffOf(model state, op)     and                         *)
(*   observation  = what the properties demand of a container in state'.   *)
(* A divergence does not disable the step (a rejection would carry no      *)
(* counterexample); it is reported as a VERDICT line with the set of       *)
(* failed judgements and the rest of that history is skipped, so one run   *)
(* reports every divergent history with its first divergence.              *)
(* Acceptance = no VERDICT line  /\  POSTCONDITION Consumed.               *)
(***************************************************************************)
EXTENDS Cntgs, Json, IOUtils

LO == INSTANCE Layout

TraceLog == ndJsonDeserialize(IOEnv.TRACE)
Cfg == TraceLog[1]

(* constants of Cntgs taken from the trace's own cfg line (the driver      *)
(* prints sizeof / AlignAs / is_trivially_copyable of the real types)      *)
TraceP == Cfg.P
TraceF == Cfg.F
TracePOCCA == Cfg.pocca = 1
TracePOCMA == Cfg.pocma = 1
TracePOCS == Cfg.pocs = 1
TraceAE == Cfg.ae = 1
TraceSoccFresh == Cfg.soccfresh = 1
TraceVecs == {1, 2, 3}
TraceElems == {1, 2, 3}

VARIABLES l,      \* next line of the trace
          heap,   \* ledger sub-machine: live blocks [id, inst, bytes]
          objs,   \* lifetime sub-machine: live instrumented objects [blk, off, sz]
          ob,     \* previous observation of every vector (for the stability judgements)
          dev,    \* this history has used a logged parameter that differs from what the generator assumed (capacity
                  \* of a copy, capacity / fixed sizes of a cleared moved-from vector): the rest of its plan may no
                  \* longer fit the observed state - a failing precondition then ends the history silently instead of
                  \* being reported as a generator defect
          obe,    \* previous observation of every stand-alone element
          ex,     \* per vector: its block was requested for exactly its current capacity (Construct, growing
                  \* Reserve, and what inherits such a block); after an assignment a vector may legitimately keep
                  \* a larger block it owned before (C05 footprint clause), so the exact-footprint clause is
                  \* only judged while ex holds
          skip    \* rest of the current history is not judged (after its first divergence)

tvars == <<vec, el, act, l, heap, objs, ob, obe, ex, dev, skip>>

NoObs == [st |-> "none"]
MA == LO!MaxAl(P)

(***************************************************************************)
(* Ledger sub-machine (C07): fold the alloc/free events of one operation.  *)
(***************************************************************************)
RECURSIVE LedgerFold(_, _, _, _)
LedgerFold(h, bad, sub, i) ==
  IF i > Len(sub) THEN [heap |-> h, bad |-> bad]
  ELSE LET s == sub[i] IN
    IF s[1] = "alloc" THEN LedgerFold(h \cup {[id |-> s[2], inst |-> s[3], bytes |-> s[4]]}, bad, sub, i + 1)
    ELSE IF s[1] = "free" THEN
      LET bs == {b \in h : b.id = s[2]} IN
      IF bs = {} THEN LedgerFold(h, bad \cup {"FREE_UNKNOWN_OR_TWICE"}, sub, i + 1)
      ELSE LET b == CHOOSE x \in bs : TRUE
               k1 == IF b.bytes # s[4] THEN {"FREE_WRONG_SIZE"} ELSE {}
               k2 == IF ~EqAlloc(b.inst, s[3]) THEN {"FREE_THROUGH_UNEQUAL_ALLOCATOR"} ELSE {}
           IN LedgerFold(h \ bs, bad \cup k1 \cup k2, sub, i + 1)
    ELSE LedgerFold(h, bad, sub, i + 1)

NumAllocEvents(sub) == Cardinality({i \in 1..Len(sub) : sub[i][1] \in {"alloc", "free"}})

(***************************************************************************)
(* Lifetime sub-machine (C06): events ["ctor",blk,off,sz,kind,val,sb,so],  *)
(* ["dtor",blk,off,sz,alive], ["asg",blk,off,sz,kind,val,sb,so,alive].     *)
(***************************************************************************)
Overlaps(o, blk, off, sz) == o.blk = blk /\ o.off < off + sz /\ off < o.off + o.sz

RECURSIVE LifeFold(_, _, _, _)
LifeFold(os, bad, sub, i) ==
  IF i > Len(sub) THEN [objs |-> os, bad |-> bad]
  ELSE LET s == sub[i] IN
    IF s[1] = "ctor" THEN
      LET k1 == IF \E o \in os : Overlaps(o, s[2], s[3], s[4]) THEN {"CTOR_OVERLAPS_LIVE"} ELSE {}
          k2 == IF s[2] <= 0 THEN {"CTOR_OUTSIDE_BLOCK"} ELSE {}
          \* a copy/move construction from an object inside the arena needs a live source
          k3 == IF s[5] \in {1, 2} /\ s[7] # -2 /\ ~(\E o \in os : o.blk = s[7] /\ o.off = s[8])
                THEN {"CTOR_FROM_DEAD"} ELSE {}
      IN LifeFold(os \cup {[blk |-> s[2], off |-> s[3], sz |-> s[4]]}, bad \cup k1 \cup k2 \cup k3, sub, i + 1)
    ELSE IF s[1] = "dtor" THEN
      LET me == {o \in os : o.blk = s[2] /\ o.off = s[3]} IN
      IF me = {} THEN LifeFold(os, bad \cup {"DTOR_OF_DEAD"}, sub, i + 1)
      ELSE LifeFold(os \ me, bad, sub, i + 1)
    ELSE IF s[1] = "asg" THEN
      LET me == {o \in os : o.blk = s[2] /\ o.off = s[3]}
          k1 == IF me = {} THEN {"ASSIGN_TO_DEAD"} ELSE {}
          k2 == IF s[7] # -2 /\ ~(\E o \in os : o.blk = s[7] /\ o.off = s[8]) THEN {"ASSIGN_FROM_DEAD"} ELSE {}
      IN LifeFold(os, bad \cup k1 \cup k2, sub, i + 1)
    ELSE LifeFold(os, bad, sub, i + 1)

(* the objects a container in model state r with observation o must hold:  *)
(* one per stored value of every non-trivially-copyable parameter          *)
SlotsOf(o, E) ==
  UNION {UNION {{[blk |-> o.blk, off |-> E[i].f[k].o + (j - 1) * P[k].sz, sz |-> P[k].sz] : j \in 1..E[i].f[k].n}
                : k \in {q \in Idx : P[q].triv = 0}} : i \in 1..Len(E)}

(***************************************************************************)
(* Judging one vector: model record r, observation o, previous             *)
(* observation po, the operation e.                                        *)
(***************************************************************************)
Bad(c, name) == IF c THEN {} ELSE {name}

SoftKinds == {"TIGHT", "ORDER", "ALIGN", "DATA_BEGIN", "FULL_FOOTPRINT", "FOOTPRINT", "ALLOCATOR_USED",
              "BLOCK_CHANGED", "CAPACITY_CHANGED", "ADDRESS_MOVED", "BLOCK_NOT_TRANSFERRED", "DATA_RANGE",
              "DATA_EXCEEDS_MEMORY_CONSUMPTION", "EMPTY_RANGE", "PATHS_DISAGREE"}

Primary(o) == o.P[o.pn[1]]

ShapeOK(r, E) ==
  /\ Len(E) = Len(r.elems)
  /\ \A i \in 1..Len(E) : /\ Len(E[i].f) = NP
                          /\ \A k \in Idx : E[i].f[k].n = Len(r.elems[i].f[k])

ValuesOK(r, E) == \A i \in 1..Len(E) : \A k \in Idx : E[i].f[k].v = r.elems[i].f[k]

Vss(r) == [i \in 1..Len(r.elems) |-> ElemVs(r.elems[i])]

JudgeLive(r, o, exact) ==
  LET E == Primary(o)
      n == Len(r.elems)
      shape == ShapeOK(r, E)
      inblk == o.blk > 0 /\ o.blive = 1
  IN
  Bad(o.size = n, "SIZE")
  \cup Bad((o.empty = 1) = (n = 0) /\ (o.bie = 1) = (n = 0), "EMPTY")
  \cup Bad(o.cap = r.cap, "CAP")
  \cup Bad(o.fx = r.fx, "FIXED_SIZE")
  \cup Bad(r.al = 0 \/ o.al = r.al, "GET_ALLOCATOR")
  \cup Bad(\A q \in 1..Len(o.pn) : o.pn[q] = o.pn[1], "PATHS_DISAGREE")
  \cup Bad(shape, "SHAPE")
  \cup (IF shape THEN Bad(ValuesOK(r, E), "VALUES") ELSE {})
  \* --- data range (C02, C18)
  \cup Bad(o.dbnull = o.denull, "DATA_RANGE")
  \cup (IF o.dbnull = 1
        THEN Bad(n = 0, "NULL_DATA_BUT_ELEMENTS")
        ELSE Bad(inblk, "DATA_NOT_IN_LIVE_BLOCK")
             \cup (IF inblk
                   THEN Bad(0 <= o.db /\ o.db <= o.de /\ o.de <= o.bsz, "DATA_RANGE")
                        \cup Bad(o.de - o.db <= o.mc, "DATA_EXCEEDS_MEMORY_CONSUMPTION")
                        \cup Bad(o.mc <= o.bsz, "MEMORY_CONSUMPTION_EXCEEDS_BLOCK")
                        \cup Bad(n = 0 => o.db = o.de, "EMPTY_RANGE")
                        \cup Bad(EqAlloc(o.binst, o.al), "BLOCK_FROM_UNEQUAL_ALLOCATOR")
                        \cup Bad(o.res % MA = 0, "BLOCK_BASE_MISALIGNED")
                   ELSE {}))
  \* --- layout (C02 C03 C04 C05), only meaningful when the shape is right and the data is in a block
  \cup (IF shape /\ inblk /\ o.dbnull = 0
        THEN Bad(LO!ElemsInOrder(P, E, o.db, o.de), "ORDER")
             \cup Bad(LO!ElemsInBlock(P, E, o.db, o.de, o.bsz), "BOUNDS")
             \cup Bad(LO!ElemsAligned(P, E, o.res), "ALIGN")
             \cup Bad(LO!ElemsTight(P, r.fx, E, Vss(r), o.db), "TIGHT")
             \cup Bad(n > 0 => o.db = E[1].rb, "DATA_BEGIN")
             \cup Bad((exact /\ ~HasVarying /\ n = r.cap /\ n > 0) => LO!AlignUp(E[n].re - o.db, MA) = o.mc,
                       "FULL_FOOTPRINT")
        ELSE {})

\* r.al = 0: allocator unknown (valid-but-unspecified operand of a failed assignment)
JudgeMoved(r, o) == Bad(o.st = "moved", "STATE") \cup Bad(r.al = 0 \/ o.al = r.al, "GET_ALLOCATOR")

ObsOf(e, v) == LET s == {q \in 1..Len(e.obs) : e.obs[q].v = v} IN
               IF s = {} THEN NoObs ELSE e.obs[CHOOSE q \in s : TRUE]

JudgeVec(r, o, exact) ==
  IF r.st = "absent" THEN Bad(o = NoObs, "OBS_OF_ABSENT")
  ELSE IF o = NoObs THEN {"OBS_MISSING"}
  ELSE IF r.st = "moved" THEN JudgeMoved(r, o)
  ELSE IF o.st # "live" THEN {"STATE"} ELSE JudgeLive(r, o, exact)

(***************************************************************************)
(* Judging one stand-alone element (C12 and the layout properties): model  *)
(* record r, observation o.  An element owns one block and starts at its   *)
(* first byte.                                                             *)
(***************************************************************************)
EObsOf(e, x) == LET s == {q \in 1..Len(e.eobs) : e.eobs[q].x = x} IN
                IF s = {} THEN NoObs ELSE e.eobs[CHOOSE q \in s : TRUE]

ElFx(c) == [k \in Idx |-> IF P[k].k = "fixed" THEN Len(c.f[k]) ELSE 0]

JudgeElLive(r, o) ==
  LET E == <<o.P[o.pn[1]]>>
      rr == [elems |-> <<r.e>>]
      shape == ShapeOK(rr, E)
      inblk == o.blk > 0 /\ o.blive = 1
  IN
  Bad(o.al = r.al, "GET_ALLOCATOR")
  \cup Bad(\A q \in 1..Len(o.pn) : o.pn[q] = o.pn[1], "PATHS_DISAGREE")
  \cup Bad(shape, "SHAPE")
  \cup (IF shape THEN Bad(ValuesOK(rr, E), "VALUES") ELSE {})
  \cup Bad(inblk, "DATA_NOT_IN_LIVE_BLOCK")
  \cup (IF inblk THEN Bad(EqAlloc(o.binst, o.al), "BLOCK_FROM_UNEQUAL_ALLOCATOR")
                      \cup Bad(o.res % MA = 0, "BLOCK_BASE_MISALIGNED") ELSE {})
  \cup (IF shape /\ inblk
        THEN Bad(LO!ElemsInOrder(P, E, 0, o.bsz), "ORDER")
             \cup Bad(LO!ElemsInBlock(P, E, 0, o.bsz, o.bsz), "BOUNDS")
             \cup Bad(LO!ElemsAligned(P, E, o.res), "ALIGN")
             \cup Bad(LO!ElemsTight(P, ElFx(r.e), E, <<ElemVs(r.e)>>, 0), "TIGHT")
        ELSE {})

JudgeEl(r, o) ==
  IF r.st = "absent" THEN Bad(o = NoObs, "OBS_OF_ABSENT")
  ELSE IF o = NoObs THEN {"OBS_MISSING"}
  ELSE IF r.st \in {"moved", "unspec"} THEN Bad(o.st = "moved", "STATE") \cup Bad(r.al = 0 \/ o.al = r.al, "GET_ALLOCATOR")
  ELSE IF o.st # "live" THEN {"STATE"} ELSE JudgeElLive(r, o)

(* which containers an operation may touch; everything else must be observed unchanged *)
SrcVecOps == {"ElemFromRef", "ElemFromLvRef", "ElemFromRvRef", "ElemAssignFromRef", "ElemAssignFromLvRef",
              "ElemAssignFromRvRef"}
TouchedVecs(e) ==
  IF e.n \in ElemOps THEN (IF e.n \in {"ElemFromRvRef", "ElemAssignFromRvRef"} THEN {e.a[1]} ELSE {})
  ELSE {e.v} \cup (IF e.n \in VecOps2 THEN {e.a[1]} ELSE {})
             \cup (IF e.n \in {"RefMoveAssign", "RefSwap", "IterSwap"} THEN {e.a[2]} ELSE {})
             \cup (IF e.n = "SwapRanges" THEN {e.a[3]} ELSE {})
TouchedEls(e) ==
  IF e.n \in ElemOps THEN {e.v} \cup (IF e.n \in ElemOps2 THEN {e.a[1]} ELSE {})
  ELSE IF e.n = "RefAssignFromRvElem" THEN {e.a[2]} ELSE {}

(* C11: iterator arithmetic and comparisons are integer arithmetic on indices.  A row of the logged table is     *)
(* <<i, j, it_j - it_i, <, <=, ==, >, >=, !=, (it_i + (j-i)).index, (it_j - (j-i)).index, const it index,        *)
(*   const == mutable, (++it_i).index, (--it_i).index, (it_i++).index>>  for all 0 <= i, j <= size               *)
B2I(b) == IF b THEN 1 ELSE 0
JudgeIterTable(e, n) ==
  IF e.n # "IterProbe" THEN {}
  ELSE Bad(/\ Len(e.itab) = (n + 1) * (n + 1)
           /\ \A q \in 1..Len(e.itab) :
                LET r == e.itab[q]  i == r[1]  j == r[2] IN
                /\ r[3] = j - i
                /\ r[4] = B2I(i < j) /\ r[5] = B2I(i <= j) /\ r[6] = B2I(i = j)
                /\ r[7] = B2I(i > j) /\ r[8] = B2I(i >= j) /\ r[9] = B2I(i # j)
                /\ r[10] = j /\ r[11] = i /\ r[12] = i /\ r[13] = 1
                /\ r[14] = (IF i < n THEN i + 1 ELSE -1)
                /\ r[15] = (IF i > 0 THEN i - 1 ELSE -1)
                /\ r[16] = (IF i < n THEN i ELSE -1)
           /\ {<<e.itab[q][1], e.itab[q][2]>> : q \in 1..Len(e.itab)} = (0..n) \X (0..n), "ITERATOR_ARITHMETIC")

(***************************************************************************)
(* Comparison (C13, C14).  ops = the compared operands' model contents     *)
(* (elements of v, then of w); cmp.K = one record of six truth tables per  *)
(* operand-kind pair; cmp.vv = the twelve vector-level results (v op w,    *)
(* then w op v, in the order == != < <= > >=).                             *)
(***************************************************************************)
IsT(x) == x = 1
RECURSIVE LexLess(_, _, _, _, _)
\* std::lexicographical_compare of index sequences A, B under the OBSERVED element relation R
LexLess(R, A, B, i, n) ==
  IF i > n THEN Len(A) < Len(B)
  ELSE IF IsT(R[A[i]][B[i]]) THEN TRUE
  ELSE IF IsT(R[B[i]][A[i]]) THEN FALSE
  ELSE LexLess(R, A, B, i + 1, n)

JudgeCmp(e, S1) ==
  IF e.n # "CmpAll" THEN {}
  ELSE
  LET c == e.cmp
      av == S1.vec[e.v].elems
      bv == S1.vec[e.a[1]].elems
      ops == av \o bv
      n == Len(ops)
      I == 1..n
      K == c.K
      R == K[1].lt
      EqM == [i \in I |-> [j \in I |-> EqElem(ops[i], ops[j])]]
      A == [i \in 1..Len(av) |-> i]
      B == [i \in 1..Len(bv) |-> Len(av) + i]
  IN
  Bad(c.n1 = Len(av) /\ c.n2 = Len(bv), "SIZE")
  \cup (IF c.n1 = Len(av) /\ c.n2 = Len(bv) THEN
        \* C13: == is equality of logical content, != its negation, for every operand kind
        Bad(\A q \in 1..Len(K) : \A i, j \in I :
               IsT(K[q].eq[i][j]) = EqM[i][j] /\ IsT(K[q].ne[i][j]) = ~EqM[i][j], "EQUALITY")
        \cup Bad(IsT(c.vv[1]) = EqElems(av, bv) /\ IsT(c.vv[7]) = EqElems(av, bv)
                 /\ IsT(c.vv[2]) = ~EqElems(av, bv) /\ IsT(c.vv[8]) = ~EqElems(av, bv), "VECTOR_EQUALITY")
        \* C14: the derived operators are consistent with <
        \cup Bad(\A q \in 1..Len(K) : \A i, j \in I :
                   /\ K[q].gt[i][j] = K[q].lt[j][i]
                   /\ IsT(K[q].le[i][j]) = ~IsT(K[q].lt[j][i])
                   /\ IsT(K[q].ge[i][j]) = ~IsT(K[q].lt[i][j]), "RELATIONAL_INCONSISTENT")
        \* the same between vectors whose allocator TYPES differ (the twin of w holds the contents of w)
        \cup (IF Len(c.vx) = 12
              THEN Bad(IsT(c.vx[1]) = EqElems(av, bv) /\ IsT(c.vx[7]) = EqElems(av, bv)
                       /\ IsT(c.vx[2]) = ~EqElems(av, bv) /\ IsT(c.vx[8]) = ~EqElems(av, bv), "VECTOR_EQUALITY")
                   \cup Bad(c.vx = c.vv, "COMPARE_DEPENDS_ON_OPERAND_KIND")
              ELSE {})
        \cup Bad(/\ c.vv[5] = c.vv[9] /\ c.vv[11] = c.vv[3]
                 /\ IsT(c.vv[4]) = ~IsT(c.vv[9]) /\ IsT(c.vv[10]) = ~IsT(c.vv[3])
                 /\ IsT(c.vv[6]) = ~IsT(c.vv[3]) /\ IsT(c.vv[12]) = ~IsT(c.vv[9]), "VECTOR_RELATIONAL_INCONSISTENT")
        \* C14: results do not depend on the kind of operand (reference, const reference, element)
        \cup Bad(\A q \in 1..Len(K) : K[q].lt = R, "COMPARE_DEPENDS_ON_OPERAND_KIND")
        \* C14: < is a strict order that is compatible with equality
        \cup Bad(/\ \A i \in I : ~IsT(R[i][i])
                 /\ \A i, j \in I : ~(IsT(R[i][j]) /\ IsT(R[j][i]))
                 /\ \A i, j, k \in I : (IsT(R[i][j]) /\ IsT(R[j][k])) => IsT(R[i][k])
                 /\ \A i, j \in I : IsT(R[i][j]) => ~EqM[i][j], "NOT_A_STRICT_ORDER")
        \* C14: operands with equal content compare alike (nothing but content matters)
        \cup Bad(\A i, j \in I : EqM[i][j] => (\A k \in I : R[i][k] = R[j][k] /\ R[k][i] = R[k][j]),
                 "COMPARE_DEPENDS_ON_NON_CONTENT")
        \* C14: vector < vector is the lexicographical comparison under the element-level <
        \cup Bad(/\ IsT(c.vv[3]) = LexLess(R, A, B, 1, IF Len(av) < Len(bv) THEN Len(av) ELSE Len(bv))
                 /\ IsT(c.vv[9]) = LexLess(R, B, A, 1, IF Len(av) < Len(bv) THEN Len(av) ELSE Len(bv)),
                 "VECTOR_ORDER")
        ELSE {})

(* C16: address stability.  keep = number of leading elements that must not move *)
SameAddrs(E1, E2, keep) ==
  \A i \in 1..keep : /\ i <= Len(E1) /\ i <= Len(E2)
                     /\ E1[i].rb = E2[i].rb
                     /\ \A k \in Idx : E1[i].f[k].o = E2[i].f[k].o

Keep(e, r0) ==
  CASE e.n = "Emplace"    -> Len(r0.elems)
    [] e.n = "PopBack"    -> Len(r0.elems) - 1
    [] e.n = "Erase"      -> e.a[1]
    [] e.n = "EraseRange" -> e.a[1]
    [] e.n = "Reserve"    -> Len(r0.elems)
    [] OTHER              -> 0

JudgeStability(e, r0, po, o) ==
  IF e.n \in NoReallocOps \/ (e.n = "Reserve" /\ e.a[1] <= r0.cap)
  THEN Bad(NumAllocEvents(e.sub) = 0, "ALLOCATOR_USED")
       \cup (IF po # NoObs /\ o # NoObs /\ po.st = "live" /\ o.st = "live"
             THEN Bad(o.blk = po.blk /\ o.db = po.db /\ o.dbnull = po.dbnull, "BLOCK_CHANGED")
                  \cup Bad(o.cap = po.cap, "CAPACITY_CHANGED")
                  \cup (IF o.blk = po.blk /\ o.blk > 0
                        THEN Bad(SameAddrs(Primary(po), Primary(o), Keep(e, r0)), "ADDRESS_MOVED") ELSE {})
             ELSE {})
  ELSE {}

(* C16: swap and move construction exchange / transfer ownership without allocating *)
JudgeTransfer(e, obv) ==
  IF e.n \in {"Swap", "MoveConstruct"}
  THEN Bad(NumAllocEvents(e.sub) = 0, "ALLOCATOR_USED")
       \cup (IF e.a[1] # e.v
             THEN LET o == ObsOf(e, e.v)  pw == obv[e.a[1]] IN
                  IF o # NoObs /\ pw # NoObs /\ o.st = "live" /\ pw.st = "live"
                  THEN Bad(o.blk = pw.blk /\ o.db = pw.db, "BLOCK_NOT_TRANSFERRED") ELSE {}
             ELSE {})
  ELSE {}

(* C05 footprint: no operation makes a vector consume more than the largest of what it *)
(* consumed before, what its source consumed, and what a fresh vector consumes         *)
JudgeFootprint(e, obv) ==
  LET o == ObsOf(e, e.v) IN
  IF o = NoObs \/ o.st # "live" THEN {}
  ELSE IF obv[e.v] # NoObs /\ obv[e.v].st = "moved" THEN {}    \* a moved-from vector may still own a block of unknown size
  ELSE LET before == IF obv[e.v] # NoObs /\ obv[e.v].st = "live" THEN obv[e.v].mc ELSE 0
           src == IF e.n \in VecOps2 /\ obv[e.a[1]] # NoObs /\ obv[e.a[1]].st = "live" THEN obv[e.a[1]].mc ELSE 0
           fresh == IF "fresh" \in DOMAIN e.par THEN e.par.fresh ELSE 0
       IN  IF e.n \in {"Construct", "DefaultConstruct"} THEN {}
           ELSE Bad(o.mc <= LO!SetMax({before, src, fresh}), "FOOTPRINT")

(***************************************************************************)
(* The step.                                                               *)
(***************************************************************************)
(* sz0/sz1: number of elements of the operand before/after the step (routing of C18) *)
SizeOrNeg(r) == IF r.st = "live" THEN Len(r.elems) ELSE -1
Report(e, kinds) ==
  PrintT(<<"VERDICT", ToJson([h |-> e.h, s |-> e.s, n |-> e.n, line |-> l, kinds |-> kinds,
                              sz0 |-> IF "sz0" \in DOMAIN e THEN e.sz0 ELSE -1,
                              sz1 |-> IF "sz1" \in DOMAIN e THEN e.sz1 ELSE -1,
                              dc |-> IF "dc" \in DOMAIN e THEN e.dc ELSE FALSE])>>)

S0 == [vec |-> vec, el |-> el]

ResetState ==
  /\ vec' = [v \in Vecs |-> Absent]
  /\ el' = [x \in Elems |-> Absent]
  /\ heap' = {} /\ objs' = {} /\ skip' = FALSE
  /\ ob' = [v \in Vecs |-> NoObs]
  /\ obe' = [x \in Elems |-> NoObs]
  /\ ex' = [v \in Vecs |-> FALSE]
  /\ dev' = FALSE

Hold == UNCHANGED <<vec, el, heap, objs, ob, obe, ex, dev, skip>>

Deviates(e) ==
  \/ /\ e.n = "Clear" /\ vec[e.v].st = "moved" /\ (e.par.cap # 0 \/ e.par.fx # NoFixed)
  \/ /\ e.n \in {"CopyConstruct", "CopyAssign", "MoveAssign"} /\ e.thrown = 0
     /\ e.par.cap >= 0 /\ e.par.cap # vec[e.a[1]].cap

ExactAfter(e, R) ==
  [v \in Vecs |->
     IF e.thrown = 1 THEN ex[v]
     ELSE IF v = e.v THEN
       CASE e.n = "Construct" -> TRUE
         [] e.n = "Reserve" -> IF e.a[1] > vec[v].cap THEN TRUE ELSE ex[v]
         [] e.n \in {"CopyConstruct", "MoveConstruct"} -> ex[e.a[1]]
         [] e.n \in {"CopyAssign", "MoveAssign"} -> IF e.a[1] = v THEN ex[v] ELSE FALSE
         [] e.n = "Swap" -> ex[e.a[1]]
         [] e.n \in {"Destroy", "DefaultConstruct"} -> FALSE
         [] OTHER -> ex[v]
     ELSE IF e.n = "Swap" /\ e.a[1] = v THEN ex[e.v]
     ELSE ex[v]]

StepOp(e) ==
  IF ~PreOf(S0, e.n, e.v, e.a)
  THEN /\ (IF dev THEN TRUE ELSE Report(e, {"DRIVER_PRECONDITION"}))
       /\ skip' = TRUE /\ UNCHANGED <<vec, el, heap, objs, ob, obe, ex, dev>>
  ELSE
    LET par == [e.par EXCEPT !.thrown = e.thrown]
        R == EffOf(S0, e.n, e.v, e.a, par)
        lg == LedgerFold(heap, {}, e.sub, 1)
        lf == LifeFold(objs, {}, e.sub, 1)
        exa == ExactAfter(e, R)
        kinds ==
          Bad(ParOK(S0, e.n, e.v, e.a, par), "LOGGED_PARAMETER")
          \cup Bad(e.thrown = 0 \/ e.par.fault > 0, "UNEXPECTED_THROW")
          \cup Bad(e.canary = 0, "CANARY")
          \cup Bad(e.ret = RetIdx(e.n, e.a), "RETURNED_ITERATOR")
          \cup lg.bad \cup lf.bad
          \cup UNION {JudgeVec(R.vec[v], ObsOf(e, v), exa[v]) : v \in Vecs}
          \cup UNION {JudgeEl(R.el[x], EObsOf(e, x)) : x \in Elems}
          \cup (IF e.n = "IterProbe" THEN JudgeIterTable(e, Len(R.vec[e.v].elems)) ELSE {})
          \cup JudgeCmp(e, R)
          \* proxies never (re)allocate or move anything (C11, C16)
          \cup (IF e.n \in RefOps THEN Bad(NumAllocEvents(e.sub) = 0, "ALLOCATOR_USED") ELSE {})
          \* every live container owns its own block (C09 / C12 independence)
          \cup (LET blks == [c \in (Vecs \X {"v"}) \cup (Elems \X {"e"}) |->
                              LET o == IF c[2] = "v" THEN ObsOf(e, c[1]) ELSE EObsOf(e, c[1]) IN
                              IF o # NoObs /\ o.st = "live" /\ o.blk > 0 THEN o.blk ELSE 0]
                IN Bad(\A c1, c2 \in DOMAIN blks : (c1 # c2 /\ blks[c1] > 0) => blks[c1] # blks[c2], "SHARED_BLOCK"))
          \cup (IF e.thrown = 0 /\ e.n \notin ElemOps /\ e.v \in Vecs /\ vec[e.v].st = "live"
                THEN JudgeStability(e, vec[e.v], ob[e.v], ObsOf(e, e.v)) ELSE {})
          \cup (IF e.thrown = 0 /\ e.n \notin ElemOps THEN JudgeTransfer(e, ob) \cup JudgeFootprint(e, ob) ELSE {})
          \* containers that are not operands are completely unchanged (C09, C12 independence): same observation
          \cup UNION {Bad(ObsOf(e, v) = ob[v], "BYSTANDER_CHANGED") : v \in Vecs \ TouchedVecs(e)}
          \cup UNION {Bad(EObsOf(e, x) = obe[x], "BYSTANDER_CHANGED") : x \in Elems \ TouchedEls(e)}
          \* live instrumented objects = exactly the slots of the held values; while a moved-from container
          \* exists it may still hold moved-from objects (element-wise move between unequal allocators), so
          \* only "every held value is a live object" is demanded then - the end of the history still requires
          \* every object to be destroyed exactly once
          \cup (LET want == UNION {LET o == ObsOf(e, v) IN
                                  IF o # NoObs /\ o.st = "live" /\ ShapeOK(R.vec[v], Primary(o))
                                  THEN SlotsOf(o, Primary(o)) ELSE {} : v \in Vecs}
                             \cup UNION {LET o == EObsOf(e, x) IN
                                  IF o # NoObs /\ o.st = "live" /\ R.el[x].st = "live"
                                     /\ ShapeOK([elems |-> <<R.el[x].e>>], <<o.P[o.pn[1]]>>)
                                  THEN SlotsOf(o, <<o.P[o.pn[1]]>>) ELSE {} : x \in Elems}
                IN IF (\A v \in Vecs : R.vec[v].st # "moved") /\ (\A x \in Elems : R.el[x].st \notin {"moved", "unspec"})
                   THEN Bad(lf.objs = want, "LIVE_OBJECTS")
                   ELSE Bad(want \subseteq lf.objs, "LIVE_OBJECTS"))
    IN /\ vec' = R.vec /\ el' = R.el
       /\ heap' = lg.heap /\ objs' = lf.objs
       /\ ob' = [v \in Vecs |-> ObsOf(e, v)]
       /\ obe' = [x \in Elems |-> EObsOf(e, x)]
       /\ ex' = exa
       /\ dev' = (dev \/ Deviates(e))
       /\ (IF kinds = {} THEN TRUE
           ELSE Report([h |-> e.h, s |-> e.s, n |-> e.n,
                        sz0 |-> IF e.v \in Vecs THEN SizeOrNeg(vec[e.v]) ELSE -1,
                        sz1 |-> IF e.v \in Vecs THEN SizeOrNeg(R.vec[e.v]) ELSE -1,
                        dc |-> e.n \notin ElemOps /\ e.v \in Vecs /\ R.vec[e.v].st = "live" /\ R.vec[e.v].dc], kinds))
       \* after a divergence that leaves the model and the real object in step (layout, stability, footprint,
       \* allocator identity: "soft") the history is judged further, so that a defect is also seen through its
       \* later consequences for the other properties; any other divergence ends the judgement of the history
       /\ skip' = (kinds \ SoftKinds # {})

StepEnd(e) ==
  LET lg == LedgerFold(heap, {}, e.sub, 1)
      lf == LifeFold(objs, {}, e.sub, 1)
      kinds == lg.bad \cup lf.bad
               \cup Bad(lg.heap = {} /\ e.live = <<>>, "LEAK")
               \cup Bad(lf.objs = {} /\ e.objs = <<>>, "OBJECTS_NEVER_DESTROYED")
  IN /\ (IF kinds = {} THEN TRUE ELSE Report([h |-> e.h, s |-> 0, n |-> "end"], kinds))
     /\ skip' = TRUE
     /\ UNCHANGED <<vec, el, heap, objs, ob, obe, ex, dev>>

TraceInit ==
  /\ l = 1 /\ skip = TRUE
  /\ vec = [v \in Vecs |-> Absent] /\ el = [x \in Elems |-> Absent]
  /\ act = [n |-> "Init", v |-> 0, a |-> <<>>, fault |-> 0]
  /\ heap = {} /\ objs = {} /\ ob = [v \in Vecs |-> NoObs] /\ ex = [v \in Vecs |-> FALSE]
  /\ obe = [x \in Elems |-> NoObs] /\ dev = FALSE

TraceNext ==
  /\ l <= Len(TraceLog)
  /\ l' = l + 1
  /\ UNCHANGED act
  /\ LET e == TraceLog[l] IN
     CASE e.e = "begin" -> ResetState
       [] e.e = "crash" -> IF skip THEN Hold      \* the history already has its first divergence
                           ELSE IF e.n # "finish" /\ ~PreOf(S0, e.n, e.v, e.a)
                           THEN (IF dev THEN TRUE ELSE Report(e, {"DRIVER_PRECONDITION"})) /\ skip' = TRUE
                                /\ UNCHANGED <<vec, el, heap, objs, ob, obe, ex, dev>>
                           ELSE /\ Report([h |-> e.h, s |-> e.s, n |-> e.n,
                                           sz0 |-> IF e.v \in Vecs THEN SizeOrNeg(vec[e.v]) ELSE -1, sz1 |-> -1],
                                          {"CRASH:" \o e.kind})
                                /\ skip' = TRUE
                                /\ UNCHANGED <<vec, el, heap, objs, ob, obe, ex, dev>>
       [] e.e = "skip"  -> skip' = TRUE /\ UNCHANGED <<vec, el, heap, objs, ob, obe, ex, dev>>
       [] e.e = "op"    -> IF skip THEN Hold ELSE StepOp(e)
       [] e.e = "end"   -> IF skip THEN Hold ELSE StepEnd(e)
       [] OTHER         -> Hold

TraceSpec == TraceInit /\ [][TraceNext]_tvars

Consumed == TLCGet("stats").diameter - 1 = Len(TraceLog)
=============================================================================

---------------------------- MODULE KnownFindings ----------------------------
(***************************************************************************)
(* Step predicates of the known findings (known_findings.json).  When the  *)
(* witness of a finding still fails on the tree under test, the generator  *)
(* runs with ACTION_CONSTRAINT  ~Trigger  on the configurations in the     *)
(* finding's scope: histories are cut BEFORE the step after which the real *)
(* object's state is undefined, so nothing behind it is judged while       *)
(* everything else is still explored.  Each predicate is a statement about *)
(* a model step (unprimed = before, act' = the operation taken).           *)
(***************************************************************************)
EXTENDS Cntgs

(* KF-RELOC: erase with at least one element behind the erased ones, on a  *)
(* list that has a VaryingSize parameter and a non-trivially-copyable      *)
(* value type: the tail is relocated object by object onto storage that    *)
(* can overlap its still-alive sources and is not re-aligned.              *)
EraseWithTail ==
  \/ /\ act'.n = "Erase"
     /\ act'.a[1] + 1 < Len(vec[act'.v].elems)
  \/ /\ act'.n = "EraseRange"
     /\ act'.a[1] < act'.a[2]
     /\ act'.a[2] < Len(vec[act'.v].elems)

NoEraseWithTail == ~EraseWithTail

(* KF-MOVEASSIGN-UNITS: move assignment between unequal, non-propagating   *)
(* allocators requests its new block in bytes where the owning pointer     *)
(* counts storage units: the block is (storage alignment) times too large, *)
(* and repeated assignments multiply the factor.                           *)
UnequalMoveAssign ==
  /\ act'.n = "MoveAssign"
  /\ act'.a[1] # act'.v
  /\ ~POCMA
  /\ ~EqAlloc(vec[act'.v].al, vec[act'.a[1]].al)

NoUnequalMoveAssign == ~UnequalMoveAssign
=============================================================================

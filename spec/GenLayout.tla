------------------------------ MODULE GenLayout ------------------------------
(***************************************************************************)
(* The layout universe of C02-C05: TLC enumerates every parameter list     *)
(* built from at most MaxLogical "logical" parameters                      *)
(*      plain T            | FixedSize<T> with a count                     *)
(*      | count + VaryingSize<T>   (the count parameter's type is a choice)*)
(* over object sizes Sizes and declared alignments Aligns, checks that the *)
(* REQUIRED layout (Layout.tla, greedy) is sound for it - ordered,         *)
(* disjoint, aligned for a block base that is aligned to exactly the       *)
(* largest alignment - for every distribution of up to MaxCnt objects over *)
(* two elements, and prints the list.  tools/universe.py instantiates the  *)
(* real templates for the printed lists; the fill histories come from the  *)
(* SF scenario of Cntgs.tla and every recorded state is judged by          *)
(* Trace.tla with the same Layout.tla.                                     *)
(***************************************************************************)
EXTENDS Integers, Sequences, FiniteSets, TLC, Json

LO == INSTANCE Layout

CONSTANTS Sizes, Aligns, FixedCounts, CountKinds, MaxLogical, MaxCnt

Logical == [kind : {"plain"}, sz : Sizes, al : Aligns, cnt : {0}, ck : {0}]
           \cup [kind : {"fixed"}, sz : Sizes, al : Aligns, cnt : FixedCounts, ck : {0}]
           \cup [kind : {"varying"}, sz : Sizes, al : Aligns, cnt : {0}, ck : CountKinds]

(* count parameter kinds: 1 = unsigned char, 4 = std::uint32_t, 8 = AlignAs<std::uint64_t, 8> *)
CountParam(ck) == [k |-> "count", sz |-> ck, al |-> IF ck = 8 THEN 8 ELSE 1, triv |-> 1, flt |-> 0, sgn |-> 0]

Expand1(g) == IF g.kind = "varying"
              THEN <<CountParam(g.ck), [k |-> "varying", sz |-> g.sz, al |-> g.al, triv |-> 1, flt |-> 0, sgn |-> 0]>>
              ELSE <<[k |-> g.kind, sz |-> g.sz, al |-> g.al, triv |-> 1, flt |-> 0, sgn |-> 0]>>
ExpandF1(g) == IF g.kind = "varying" THEN <<0, 0>> ELSE <<g.cnt>>

RECURSIVE Expand(_), ExpandF(_)
Expand(gs)  == IF gs = <<>> THEN <<>> ELSE Expand1(Head(gs)) \o Expand(Tail(gs))
ExpandF(gs) == IF gs = <<>> THEN <<>> ELSE ExpandF1(Head(gs)) \o ExpandF(Tail(gs))

Lists == UNION {[1..n -> Logical] : n \in 1..MaxLogical}

VARIABLE lst
Init == lst \in Lists
Next == UNCHANGED lst

PL == Expand(lst)
FL == ExpandF(lst)
VarPos == {k \in 1..Len(PL) : PL[k].k = "varying"}
VsSpace == {vs \in [1..Len(PL) -> 0..MaxCnt] : \A k \in 1..Len(PL) : k \notin VarPos => vs[k] = 0}

(* the oracle is sound for this list: every pair of elements with every combination of counts *)
OracleSound == \A v1 \in VsSpace, v2 \in VsSpace : LO!GreedyIsSound(PL, FL, <<v1, v2>>)

Emit == PrintT(<<"LIST", ToJson([P |-> PL, F |-> FL])>>)

SoundAndEmit == OracleSound /\ Emit
=============================================================================
